package main

import (
	"bytes"
	"encoding/json"
	"fmt"
	"io"
	"log"
	"os"
	"path"
	"path/filepath"
	"reflect"
	"regexp"
	"runtime/pprof"
	"sort"
	"strings"

	"sigs.k8s.io/kustomize/api/provider"
	"sigs.k8s.io/kustomize/api/types"
	"sigs.k8s.io/kustomize/kustomize/v5/commands/edit"
	"sigs.k8s.io/kustomize/kyaml/filesys"
	"sigs.k8s.io/kustomize/kyaml/resid"
	"sigs.k8s.io/yaml"
)

// C17: `kustomize edit` changes exactly what the sub-command says.
// The real cobra commands are driven in-process on an in-memory file system. After every command
// the kustomization file is read back: its bytes (as lines), its strict Unmarshal and the
// yaml.Marshal text of every one-field struct go to the Coq model (Corr/C17.v), which is run
// independently from the initial file. The property's laws (still parses, frame, set idempotence,
// add/remove inverse, comment preservation) are evaluated directly on the implementation.

func init() {
	register("C17", propDef{
		header:     "From KV Require Import Corr.C17.\nOpen Scope string_scope.\n",
		caseType:   "case17",
		mismatchFn: "mismatches17",
		run:        runC17,
		replay:     replayC17,
	})
}

// ---------------------------------------------------------------- case description

type c17Op struct {
	Kind        string    `json:"kind"` // "add resource", "set image", ...
	Pos         []string  `json:"pos,omitempty"`
	NoVerify    bool      `json:"noverify,omitempty"`
	Force       bool      `json:"force,omitempty"`
	WoSel       bool      `json:"wosel,omitempty"`
	Tpl         bool      `json:"tpl,omitempty"`
	Ignore      bool      `json:"ignore,omitempty"`
	DisableHash bool      `json:"disablehash,omitempty"`
	Files       []string  `json:"files,omitempty"`
	Literals    []string  `json:"literals,omitempty"`
	EnvFile     string    `json:"envfile,omitempty"`
	Behavior    string    `json:"behavior,omitempty"`
	Namespace   string    `json:"namespace,omitempty"`
	SType       string    `json:"stype,omitempty"`
	Path        string    `json:"path,omitempty"`
	Patch       string    `json:"patch,omitempty"`
	Target      [7]string `json:"target,omitempty"` // group version kind name namespace annsel labelsel
	NewNS       string    `json:"newns,omitempty"`  // set configmap|secret --new-namespace
	Ord         []string  `json:"ord,omitempty"`    // set configmap|secret: literal key order the implementation produced (map iteration)
}

type c17Case struct {
	KPath   string            `json:"kpath"`
	Files   map[string]string `json:"files"` // other files of the directory: path -> content
	Init    string            `json:"init"`  // initial bytes of the kustomization file
	Ops     []c17Op           `json:"ops"`
	Flavour string            `json:"flavour,omitempty"`
}

var c17TargetFlags = [7]string{"group", "version", "kind", "name", "namespace", "annotation-selector", "label-selector"}

func (o c17Op) cli() []string {
	w := strings.SplitN(o.Kind, " ", 2)
	a := []string{w[0], w[1]}
	a = append(a, o.Pos...)
	switch o.Kind {
	case "add resource":
		if o.NoVerify {
			a = append(a, "--no-verify")
		}
	case "add label":
		if o.Force {
			a = append(a, "--force")
		}
		if o.WoSel {
			a = append(a, "--without-selector")
		}
		if o.Tpl {
			a = append(a, "--include-templates")
		}
	case "add annotation":
		if o.Force {
			a = append(a, "--force")
		}
	case "remove label", "remove annotation":
		if o.Ignore {
			a = append(a, "--ignore-non-existence")
		}
	case "add configmap", "add secret":
		for _, f := range o.Files {
			a = append(a, "--from-file="+f)
		}
		for _, l := range o.Literals {
			a = append(a, "--from-literal="+l)
		}
		if o.EnvFile != "" {
			a = append(a, "--from-env-file="+o.EnvFile)
		}
		if o.DisableHash {
			a = append(a, "--disableNameSuffixHash")
		}
		if o.Behavior != "" {
			a = append(a, "--behavior="+o.Behavior)
		}
		if o.Namespace != "" {
			a = append(a, "--namespace="+o.Namespace)
		}
		if o.Kind == "add secret" && o.SType != "" {
			a = append(a, "--type="+o.SType)
		}
	case "remove configmap", "remove secret":
		if o.Namespace != "" {
			a = append(a, "--namespace="+o.Namespace)
		}
	case "set configmap", "set secret":
		for _, l := range o.Literals {
			a = append(a, "--from-literal="+l)
		}
		if o.Namespace != "" {
			a = append(a, "--namespace="+o.Namespace)
		}
		if o.NewNS != "" {
			a = append(a, "--new-namespace="+o.NewNS)
		}
	case "add patch", "remove patch":
		if o.Path != "" {
			a = append(a, "--path="+o.Path)
		}
		if o.Patch != "" {
			a = append(a, "--patch="+o.Patch)
		}
		for i, v := range o.Target {
			if v != "" {
				a = append(a, "--"+c17TargetFlags[i]+"="+v)
			}
		}
	}
	return a
}

func c17SelTerm(t [7]string) string {
	p := make([]string, 7)
	for i, v := range t {
		p[i] = coqStr(v)
	}
	return "(mkSel " + strings.Join(p, " ") + ")"
}

func (o c17Op) term() string {
	pos := coqStrList(o.Pos)
	switch o.Kind {
	case "add resource":
		return fmt.Sprintf("(AddResource %s %s)", pos, coqBool(o.NoVerify))
	case "add component":
		return fmt.Sprintf("(AddComponent %s)", pos)
	case "add base":
		return fmt.Sprintf("(AddBase %s)", pos)
	case "add transformer":
		return fmt.Sprintf("(AddTransformer %s)", pos)
	case "add generator":
		return fmt.Sprintf("(AddGenerator %s)", pos)
	case "remove resource":
		return fmt.Sprintf("(RemoveResource %s)", pos)
	case "remove transformer":
		return fmt.Sprintf("(RemoveTransformer %s)", pos)
	case "add label":
		return fmt.Sprintf("(AddLabel %s %s %s %s)", pos, coqBool(o.Force), coqBool(o.WoSel), coqBool(o.Tpl))
	case "add annotation":
		return fmt.Sprintf("(AddAnnotation %s %s)", pos, coqBool(o.Force))
	case "remove label":
		return fmt.Sprintf("(RemoveLabel %s %s)", pos, coqBool(o.Ignore))
	case "remove annotation":
		return fmt.Sprintf("(RemoveAnnotation %s %s)", pos, coqBool(o.Ignore))
	case "set label":
		return fmt.Sprintf("(SetLabel %s)", pos)
	case "set annotation":
		return fmt.Sprintf("(SetAnnotation %s)", pos)
	case "add buildmetadata":
		return fmt.Sprintf("(AddBuildMetadata %s)", pos)
	case "remove buildmetadata":
		return fmt.Sprintf("(RemoveBuildMetadata %s)", pos)
	case "set buildmetadata":
		return fmt.Sprintf("(SetBuildMetadata %s)", pos)
	case "add configmap", "add secret":
		st := o.SType
		if o.Kind == "add secret" && st == "" {
			st = "Opaque" // cobra default of --type
		}
		fl := fmt.Sprintf("(mkCmFlags %s %s %s %s %s %s %s %s)", pos, coqStrList(o.Files), coqStrList(o.Literals),
			coqStr(o.EnvFile), coqBool(o.DisableHash), coqStr(o.Behavior), coqStr(o.Namespace), coqStr(st))
		if o.Kind == "add configmap" {
			return "(AddConfigMap " + fl + ")"
		}
		return "(AddSecret " + fl + ")"
	case "remove configmap":
		return fmt.Sprintf("(RemoveConfigMap %s %s)", pos, coqStr(o.Namespace))
	case "remove secret":
		return fmt.Sprintf("(RemoveSecret %s %s)", pos, coqStr(o.Namespace))
	case "add patch":
		return fmt.Sprintf("(AddPatch %s %s %s)", coqStr(o.Path), coqStr(o.Patch), c17SelTerm(o.Target))
	case "remove patch":
		return fmt.Sprintf("(RemovePatch %s %s %s)", coqStr(o.Path), coqStr(o.Patch), c17SelTerm(o.Target))
	case "set image":
		return fmt.Sprintf("(SetImage %s)", pos)
	case "set replicas":
		return fmt.Sprintf("(SetReplicas %s)", pos)
	case "set namespace":
		return fmt.Sprintf("(SetNamespace %s)", pos)
	case "set nameprefix":
		return fmt.Sprintf("(SetNamePrefix %s)", pos)
	case "set namesuffix":
		return fmt.Sprintf("(SetNameSuffix %s)", pos)
	case "set configmap":
		return fmt.Sprintf("(SetConfigMap %s %s %s %s %s)", pos, coqStrList(o.Literals), coqStr(o.Namespace), coqStr(o.NewNS), coqStrList(o.Ord))
	case "set secret":
		return fmt.Sprintf("(SetSecret %s %s %s %s %s)", pos, coqStrList(o.Literals), coqStr(o.Namespace), coqStr(o.NewNS), coqStrList(o.Ord))
	}
	panic("unknown op kind " + o.Kind)
}

// Go field names of types.Kustomization the sub-command may change (mirror of Ops.addressed).
func (o c17Op) addressed() []string {
	switch o.Kind {
	case "add resource", "add base", "remove resource":
		return []string{"Resources"}
	case "add component":
		return []string{"Components"}
	case "add transformer", "remove transformer":
		return []string{"Transformers"}
	case "add generator":
		return []string{"Generators"}
	case "add label":
		if o.WoSel {
			return []string{"Labels"}
		}
		return []string{"CommonLabels"}
	case "remove label", "set label":
		return []string{"CommonLabels"}
	case "add annotation", "remove annotation", "set annotation":
		return []string{"CommonAnnotations"}
	case "add buildmetadata", "remove buildmetadata", "set buildmetadata":
		return []string{"BuildMetadata"}
	case "add configmap", "remove configmap", "set configmap":
		return []string{"ConfigMapGenerator"}
	case "add secret", "remove secret", "set secret":
		return []string{"SecretGenerator"}
	case "add patch", "remove patch":
		return []string{"Patches"}
	case "set image":
		return []string{"Images"}
	case "set replicas":
		return []string{"Replicas"}
	case "set namespace":
		return []string{"Namespace"}
	case "set nameprefix":
		return []string{"NamePrefix"}
	case "set namesuffix":
		return []string{"NameSuffix"}
	}
	return nil
}

// ---------------------------------------------------------------- running the implementation

var c17pv = provider.NewDefaultDepProvider()

// The commands run on the real disk file system (as the CLI does), in a scratch directory that is
// the process' working directory while a command runs. (The in-memory file systems of kyaml do not
// serve here: MakeFsInMemory is rooted at "/" so relative glob patterns match nothing, and
// MakeEmptyDirInMemory has the empty root, below which the root-only loader accepts no sub-directory.)
var (
	c17TmpBase string
	c17TmpSeq  int
)

type c17Fs struct {
	filesys.FileSystem
	dir string
}

func c17MakeFs(c *c17Case, kbytes []byte) *c17Fs {
	if c17TmpBase == "" {
		d, err := os.MkdirTemp("", "verif-c17-")
		if err != nil {
			panic(err)
		}
		if r, err := filepath.EvalSymlinks(d); err == nil {
			d = r
		}
		c17TmpBase = d
	}
	c17TmpSeq++
	dir := filepath.Join(c17TmpBase, fmt.Sprintf("d%d", c17TmpSeq))
	names := make([]string, 0, len(c.Files))
	for n := range c.Files {
		names = append(names, n)
	}
	sort.Strings(names)
	must := func(err error) {
		if err != nil {
			panic(err)
		}
	}
	must(os.MkdirAll(dir, 0o755))
	for _, n := range names {
		must(os.MkdirAll(filepath.Join(dir, filepath.Dir(n)), 0o755))
		must(os.WriteFile(filepath.Join(dir, n), []byte(c.Files[n]), 0o644))
	}
	must(os.WriteFile(filepath.Join(dir, c.KPath), kbytes, 0o644))
	return &c17Fs{filesys.MakeFsOnDisk(), dir}
}

func (f *c17Fs) read(p string) []byte {
	b, _ := os.ReadFile(filepath.Join(f.dir, p))
	return b
}

func (f *c17Fs) close() { _ = os.RemoveAll(f.dir) }

func c17Cleanup() {
	if c17TmpBase != "" {
		_ = os.RemoveAll(c17TmpBase)
		c17TmpBase = ""
	}
}

// c17Exec runs one `kustomize edit ...` on the file system (a fresh command tree per call: cobra
// flag variables keep their values between Execute calls).
func c17Exec(fs *c17Fs, args []string) (cls, msg string) {
	if err := os.Chdir(fs.dir); err != nil {
		panic(err)
	}
	defer os.Chdir("/")
	return protect(func() error {
		var w bytes.Buffer
		cmd := edit.NewCmdEdit(fs.FileSystem, c17pv.GetFieldValidator(), c17pv.GetResourceFactory(), &w)
		cmd.SetArgs(args)
		cmd.SetOut(io.Discard)
		cmd.SetErr(io.Discard)
		cmd.SilenceUsage = true
		cmd.SilenceErrors = true
		return cmd.Execute()
	})
}

func c17Unmarshal(b []byte) (*types.Kustomization, error) {
	var k types.Kustomization
	if err := k.Unmarshal(b); err != nil {
		return nil, err
	}
	return &k, nil
}

// ---------------------------------------------------------------- struct fields by reflection

type c17Field struct {
	goName string
	index  []int
}

var c17Fields = func() []c17Field {
	var out []c17Field
	t := reflect.TypeOf(types.Kustomization{})
	var walk func(t reflect.Type, prefix []int)
	walk = func(t reflect.Type, prefix []int) {
		for i := 0; i < t.NumField(); i++ {
			f := t.Field(i)
			idx := append(append([]int{}, prefix...), i)
			if f.Anonymous && f.Type.Kind() == reflect.Struct {
				walk(f.Type, idx)
				continue
			}
			out = append(out, c17Field{f.Name, idx})
		}
	}
	walk(t, nil)
	return out
}()

// isEmptyField mirrors kustomizationfile.go's isEmpty on the value of one field.
func c17IsEmpty(v reflect.Value) bool {
	switch v.Kind() {
	case reflect.Ptr:
		return v.IsNil()
	case reflect.String, reflect.Slice, reflect.Map:
		return v.Len() == 0
	}
	return false
}

// single returns a Kustomization holding only field f of k.
func c17Single(k *types.Kustomization, f c17Field) *types.Kustomization {
	out := &types.Kustomization{}
	reflect.ValueOf(out).Elem().FieldByIndex(f.index).Set(reflect.ValueOf(k).Elem().FieldByIndex(f.index))
	return out
}

// fieldJSON: canonical JSON of one field (omitempty applied the way the file format applies it).
func c17FieldJSON(k *types.Kustomization, f c17Field) string {
	b, err := json.Marshal(c17Single(k, f))
	if err != nil {
		return "!" + err.Error()
	}
	return string(b)
}

func c17MustField(n string) c17Field {
	f, ok := c17FieldByName(n)
	if !ok {
		panic("unknown field " + n)
	}
	return f
}

func c17FieldByName(n string) (c17Field, bool) {
	for _, f := range c17Fields {
		if f.goName == n {
			return f, true
		}
	}
	return c17Field{}, false
}

// ---------------------------------------------------------------- Coq terms

func c17SplitLines(b []byte) (lines []string, tail string, hasTail bool) {
	parts := strings.Split(string(b), "\n")
	lines = parts[:len(parts)-1]
	tail = parts[len(parts)-1]
	return lines, tail, tail != ""
}

func c17FileTerm(b []byte) string {
	lines, tail, has := c17SplitLines(b)
	return fmt.Sprintf("(mkFile %s %s)", coqStrList(lines), coqOpt(has, coqStr(tail)))
}

func c17SmapTerm(m map[string]string) string {
	keys := make([]string, 0, len(m))
	for k := range m {
		keys = append(keys, k)
	}
	sort.Strings(keys)
	p := make([]string, len(keys))
	for i, k := range keys {
		p[i] = fmt.Sprintf("(%s, %s)", coqStr(k), coqStr(m[k]))
	}
	return "[" + strings.Join(p, "; ") + "]"
}

func c17SmapoTerm(m map[string]string) string { return coqOpt(m != nil, c17SmapTerm(m)) }

func c17JsonTok(v interface{}) string {
	b, err := json.Marshal(v)
	if err != nil {
		return "!" + err.Error()
	}
	return string(b)
}

func c17LabelTerm(l types.Label) string {
	return fmt.Sprintf("(mkLabel %s %s %s %s)", c17SmapoTerm(l.Pairs), coqBool(l.IncludeSelectors), coqBool(l.IncludeTemplates),
		coqOpt(len(l.FieldSpecs) > 0, coqStr(c17JsonTok(l.FieldSpecs))))
}

func c17SelectorTerm(s *types.Selector) string {
	return c17SelTerm([7]string{s.Group, s.Version, s.Kind, s.Name, s.Namespace, s.AnnotationSelector, s.LabelSelector})
}

func c17PatchTerm(p types.Patch) string {
	opt := "None"
	if p.Options != nil {
		keys := make([]string, 0, len(p.Options))
		for k := range p.Options {
			keys = append(keys, k)
		}
		sort.Strings(keys)
		q := make([]string, len(keys))
		for i, k := range keys {
			q[i] = fmt.Sprintf("(%s, %s)", coqStr(k), coqBool(p.Options[k]))
		}
		opt = "(Some [" + strings.Join(q, "; ") + "])"
	}
	tgt := "None"
	if p.Target != nil {
		tgt = "(Some " + c17SelectorTerm(p.Target) + ")"
	}
	return fmt.Sprintf("(mkPatch %s %s %s %s)", coqStr(p.Path), coqStr(p.Patch), tgt, opt)
}

func c17ImageTerm(i types.Image) string {
	return fmt.Sprintf("(mkImage %s %s %s %s %s)", coqStr(i.Name), coqStr(i.NewName), coqStr(i.TagSuffix), coqStr(i.NewTag), coqStr(i.Digest))
}

func c17ZTerm(n int64) string { return fmt.Sprintf("(%d)%%Z", n) }

func c17GenoptsTerm(g *types.GeneratorOptions) string {
	if g == nil {
		return "None"
	}
	return fmt.Sprintf("(Some (mkGo %s %s %s %s))", c17SmapoTerm(g.Labels), c17SmapoTerm(g.Annotations), coqBool(g.DisableNameSuffixHash), coqBool(g.Immutable))
}

func c17GenargsTerm(g types.GeneratorArgs, typ string) string {
	return fmt.Sprintf("(mkGa %s %s %s %s %s %s %s %s %s)", coqStr(g.Namespace), coqStr(g.Name), coqStr(g.Behavior),
		coqStrList(g.LiteralSources), coqStrList(g.FileSources), coqStrList(g.EnvSources), coqStr(g.EnvSource),
		c17GenoptsTerm(g.Options), coqStr(typ))
}

func c17ListTerm[T any](l []T, f func(T) string) string {
	p := make([]string, len(l))
	for i, x := range l {
		p[i] = f(x)
	}
	return "[" + strings.Join(p, "; ") + "]"
}

var c17Opaque = []string{"MetaData", "OpenAPI", "Crds", "Replacements", "Vars", "SortOptions", "HelmGlobals", "HelmCharts", "Configurations", "Validators"}

// c17KustTerm prints the record of Edit/Kust.v; ok=false when the value is outside the model's domain.
func c17KustTerm(k *types.Kustomization) (string, bool) {
	if len(k.HelmChartInflationGenerator) > 0 {
		return "", false
	}
	sm := make([]string, len(k.PatchesStrategicMerge))
	for i, p := range k.PatchesStrategicMerge {
		sm[i] = string(p)
	}
	var other []string
	rv := reflect.ValueOf(k).Elem()
	for _, n := range c17Opaque {
		f, _ := c17FieldByName(n)
		v := rv.FieldByIndex(f.index)
		if !c17IsEmpty(v) {
			other = append(other, fmt.Sprintf("(%s, %s)", coqStr(n), coqStr(c17JsonTok(v.Interface()))))
		}
	}
	parts := []string{
		coqStr(k.APIVersion), coqStr(k.Kind), coqStr(k.NamePrefix), coqStr(k.NameSuffix), coqStr(k.Namespace),
		c17SmapoTerm(k.CommonLabels), c17ListTerm(k.Labels, c17LabelTerm), c17SmapoTerm(k.CommonAnnotations),
		coqStrList(sm), c17ListTerm(k.PatchesJson6902, c17PatchTerm), c17ListTerm(k.Patches, c17PatchTerm),
		c17ListTerm(k.Images, c17ImageTerm), c17ListTerm(k.ImageTags, c17ImageTerm),
		c17ListTerm(k.Replicas, func(r types.Replica) string { return fmt.Sprintf("(mkReplica %s %s)", coqStr(r.Name), c17ZTerm(r.Count)) }),
		coqStrList(k.Resources), coqStrList(k.Components), coqStrList(k.Bases),
		c17ListTerm(k.ConfigMapGenerator, func(a types.ConfigMapArgs) string { return c17GenargsTerm(a.GeneratorArgs, "") }),
		c17ListTerm(k.SecretGenerator, func(a types.SecretArgs) string { return c17GenargsTerm(a.GeneratorArgs, a.Type) }),
		c17GenoptsTerm(k.GeneratorOptions),
		coqStrList(k.Generators), coqStrList(k.Transformers), coqStrList(k.BuildMetadata),
		"[" + strings.Join(other, "; ") + "]",
	}
	return "(mkKust " + strings.Join(parts, " ") + ")", true
}

func c17RkustTerm(b []byte) (string, bool) {
	k, err := c17Unmarshal(b)
	if err != nil {
		return "Err", true
	}
	t, ok := c17KustTerm(k)
	if !ok {
		return "", false
	}
	return "(Ok " + t + ")", true
}

// c17RenderTable: Go field name -> lines of yaml.Marshal of the one-field struct (marshalField's
// output), for every field that is serialised at all.
func c17RenderTable(k *types.Kustomization) string {
	var p []string
	for _, f := range c17Fields {
		b, err := yaml.Marshal(c17Single(k, f))
		if err != nil || string(b) == "{}\n" {
			continue
		}
		lines, _, _ := c17SplitLines(b)
		p = append(p, fmt.Sprintf("(%s, %s)", coqStr(f.goName), coqStrList(lines)))
	}
	return "[" + strings.Join(p, "; ") + "]"
}

func c17EnvTerm(c *c17Case) string {
	names := []string{c.KPath}
	for n := range c.Files {
		names = append(names, n)
	}
	sort.Strings(names)
	dirs := map[string]bool{}
	var fl []string
	for _, n := range names {
		content := c.Files[n]
		if n == c.KPath {
			content = "" // never loaded as an env file by the generator's domain
		}
		fl = append(fl, fmt.Sprintf("(%s, %s)", coqStr(n), coqStrList(c17EnvKeysOf(content))))
		for d := path.Dir(n); d != "." && d != "/" && d != ""; d = path.Dir(d) {
			dirs[d] = true
		}
	}
	return fmt.Sprintf("(mkEnv [%s] %s %s)", strings.Join(fl, "; "), coqStrList(sortedKeys(dirs)), coqStr(c.KPath))
}

// c17EnvKeys: keys kv.keyValuesFromLines yields for a file (ASCII content of the generator's domain).
func c17EnvKeysOf(content string) []string {
	var out []string
	for _, l := range strings.Split(content, "\n") {
		l = strings.TrimLeft(l, " \t")
		if l == "" || l[0] == '#' {
			continue
		}
		k := strings.SplitN(l, "=", 2)[0]
		if k == "" {
			continue
		}
		out = append(out, k)
	}
	return out
}

// ---------------------------------------------------------------- one sequence

type c17StepObs struct {
	cls   string
	msg   string
	after []byte
}

// runSeq executes the whole sequence; returns the observations.
func c17RunSeq(c *c17Case) []c17StepObs {
	fs := c17MakeFs(c, []byte(c.Init))
	defer fs.close()
	obs := make([]c17StepObs, 0, len(c.Ops))
	for _, o := range c.Ops {
		cls, msg := c17Exec(fs, append([]string{}, o.cli()...))
		after := fs.read(c.KPath)
		obs = append(obs, c17StepObs{cls, msg, after})
	}
	return obs
}

func c17CaseTerm(c *c17Case, obs []c17StepObs) (string, bool) {
	k0, ok := c17RkustTerm([]byte(c.Init))
	if !ok {
		return "", false
	}
	var steps []string
	for i, o := range c.Ops {
		kt, ok := c17RkustTerm(obs[i].after)
		if !ok {
			return "", false
		}
		tbl := "[]"
		if k, err := c17Unmarshal(obs[i].after); err == nil {
			tbl = c17RenderTable(k)
		}
		steps = append(steps, fmt.Sprintf("(mkStep17 %s %s %s %s %s)", o.term(), obs[i].cls, c17FileTerm(obs[i].after), kt, tbl))
	}
	return c17PoolStrings(fmt.Sprintf("(mkCase17 %s %s %s [%s])", c17EnvTerm(c), c17FileTerm([]byte(c.Init)), k0, strings.Join(steps, ";\n    "))), true
}

var c17CoqStrLit = regexp.MustCompile(`"(?:[^"]|"")*"`)

// c17PoolStrings binds every string literal that occurs more than once in a case term to a
// let-variable: Coq elaborates a string literal in time proportional to its length (about 50 us
// per character), and the same file lines recur in every step of a sequence.
func c17PoolStrings(term string) string {
	count := map[string]int{}
	for _, l := range c17CoqStrLit.FindAllString(term, -1) {
		count[l]++
	}
	names := map[string]string{}
	var order []string
	body := c17CoqStrLit.ReplaceAllStringFunc(term, func(l string) string {
		if count[l] < 2 || len(l) < 5 {
			return l
		}
		n, ok := names[l]
		if !ok {
			n = fmt.Sprintf("z%d", len(order))
			names[l] = n
			order = append(order, l)
		}
		return n
	})
	var b strings.Builder
	b.WriteString("(")
	for i, l := range order {
		fmt.Fprintf(&b, "let z%d := %s in ", i, l)
	}
	b.WriteString(body)
	b.WriteString(")")
	return b.String()
}

// ---------------------------------------------------------------- law oracles on the implementation

func c17IsCommentLike(l string) bool {
	s := strings.TrimLeft(l, " ")
	return s == "" || s[0] == '#'
}

func c17CommentLines(b []byte) []string {
	lines, tail, has := c17SplitLines(b)
	var out []string
	for _, l := range lines {
		if c17IsCommentLike(l) {
			out = append(out, l)
		}
	}
	if has && c17IsCommentLike(tail) {
		out = append(out, tail)
	}
	return out
}

// c17TrailingComments: the comment lines that no newline-terminated non-comment line follows.
func c17TrailingComments(b []byte) []string {
	lines, tail, has := c17SplitLines(b)
	i := len(lines)
	for i > 0 && c17IsCommentLike(lines[i-1]) {
		i--
	}
	out := append([]string{}, lines[i:]...)
	if has && c17IsCommentLike(tail) {
		out = append(out, tail)
	}
	return out
}

func c17MultisetMinus(a, b []string) []string {
	cnt := map[string]int{}
	for _, x := range b {
		cnt[x]++
	}
	var out []string
	for _, x := range a {
		if cnt[x] > 0 {
			cnt[x]--
		} else {
			out = append(out, x)
		}
	}
	return out
}

func c17FixedOf(b []byte) (*types.Kustomization, error) {
	k, err := c17Unmarshal(b)
	if err != nil {
		return nil, err
	}
	k.FixKustomization()
	return k, nil
}

// c17AbsorbedShape: the new JSON differs from the old only in string leaves that grew by appended
// comment-looking lines (an indented comment re-emitted after a block scalar).
// c17LastAbsorbed: the lines the last successful c17AbsorbedShape call found appended
var c17LastAbsorbed []string

func c17AbsorbedShape(oldJ, newJ string) bool {
	c17LastAbsorbed = nil
	var a, b interface{}
	if json.Unmarshal([]byte(oldJ), &a) != nil || json.Unmarshal([]byte(newJ), &b) != nil {
		return false
	}
	grew := false
	var cmp func(x, y interface{}) bool
	cmp = func(x, y interface{}) bool {
		switch xv := x.(type) {
		case string:
			yv, ok := y.(string)
			if !ok {
				return false
			}
			if xv == yv {
				return true
			}
			if !strings.HasPrefix(yv, xv) {
				return false
			}
			rest := strings.TrimPrefix(yv[len(xv):], "\n")
			for _, l := range strings.Split(strings.TrimSuffix(rest, "\n"), "\n") {
				if !c17IsCommentLike(l) {
					return false
				}
				c17LastAbsorbed = append(c17LastAbsorbed, l)
			}
			grew = true
			return true
		case map[string]interface{}:
			yv, ok := y.(map[string]interface{})
			if !ok || len(xv) != len(yv) {
				return false
			}
			for k, v := range xv {
				w, ok := yv[k]
				if !ok || !cmp(v, w) {
					return false
				}
			}
			return true
		case []interface{}:
			yv, ok := y.([]interface{})
			if !ok || len(xv) != len(yv) {
				return false
			}
			for i := range xv {
				if !cmp(xv[i], yv[i]) {
					return false
				}
			}
			return true
		default:
			return reflect.DeepEqual(x, y)
		}
	}
	return cmp(a, b) && grew
}

// set configmap|secret rebuild the literal list by ranging over a Go map: the order of the list is not
// determined, so "the same command again gives the same list" is not a law for them
// c17AbsorbClass names the two mechanisms behind "a string value grew by comment-looking lines":
//   comment-line-absorbed-into-block-scalar: every appended line already was a (comment-looking) line
//     INSIDE some string value of the file — the scanner took scalar content for a comment and wrote it
//     back once more (repaired by /tmp/fixes/U-kustfile-block-scalar-comments.patch);
//   indented-comment-relocated-behind-block-scalar: a genuine, indented comment of the file was written
//     back directly behind a field whose text ends in a block scalar.
func c17AbsorbClass(before *types.Kustomization) string {
	inside := map[string]bool{}
	var walk func(x interface{})
	walk = func(x interface{}) {
		switch v := x.(type) {
		case string:
			for _, l := range strings.Split(v, "\n") {
				if c17IsCommentLike(l) {
					inside[strings.TrimLeft(l, " ")] = true
				}
			}
		case map[string]interface{}:
			for _, y := range v {
				walk(y)
			}
		case []interface{}:
			for _, y := range v {
				walk(y)
			}
		}
	}
	var j interface{}
	if json.Unmarshal([]byte(c17WholeJSON(before)), &j) == nil {
		walk(j)
	}
	for _, l := range c17LastAbsorbed {
		if !inside[strings.TrimLeft(l, " ")] {
			return "indented-comment-relocated-behind-block-scalar"
		}
	}
	return "comment-line-absorbed-into-block-scalar"
}

func c17IsSetKind(k string) bool {
	return strings.HasPrefix(k, "set ") && k != "set configmap" && k != "set secret"
}

// c17InverseOf: the matching remove command of an add command, and whether the theorem's guard holds
// on the state before the add (k = Fix'd content before).
func c17InverseOf(o c17Op, k *types.Kustomization, c *c17Case) (c17Op, bool) {
	plain := func(s string) bool { return !strings.ContainsAny(s, "*?[\\,") && s != "" }
	contains := func(l []string, s string) bool {
		for _, x := range l {
			if x == s {
				return true
			}
		}
		return false
	}
	switch o.Kind {
	case "add resource":
		if len(o.Pos) != 1 || !plain(o.Pos[0]) || contains(k.Resources, o.Pos[0]) || o.Pos[0] == c.KPath {
			return c17Op{}, false
		}
		return c17Op{Kind: "remove resource", Pos: o.Pos}, true
	case "add transformer":
		if len(o.Pos) != 1 || !plain(o.Pos[0]) || contains(k.Transformers, o.Pos[0]) {
			return c17Op{}, false
		}
		return c17Op{Kind: "remove transformer", Pos: o.Pos}, true
	case "add label", "add annotation":
		if o.WoSel || o.Force {
			return c17Op{}, false
		}
		m := k.CommonLabels
		inv := "remove label"
		if o.Kind == "add annotation" {
			m = k.CommonAnnotations
			inv = "remove annotation"
		}
		var keys []string
		for _, a := range o.Pos {
			key := a
			if i := strings.Index(a, ":"); i >= 0 {
				key = a[:i]
			}
			if !plain(key) || contains(keys, key) {
				return c17Op{}, false
			}
			if _, ok := m[key]; ok {
				return c17Op{}, false
			}
			keys = append(keys, key)
		}
		return c17Op{Kind: inv, Pos: []string{strings.Join(keys, ",")}}, true
	case "add buildmetadata":
		if len(o.Pos) != 1 {
			return c17Op{}, false
		}
		return c17Op{Kind: "remove buildmetadata", Pos: o.Pos}, true
	case "add configmap", "add secret":
		if len(o.Pos) != 1 || !plain(o.Pos[0]) {
			return c17Op{}, false
		}
		nsEq := func(a, b string) bool {
			if a == "" {
				a = "default"
			}
			if b == "" {
				b = "default"
			}
			return a == b
		}
		if o.Kind == "add configmap" {
			for _, g := range k.ConfigMapGenerator {
				if g.Name == o.Pos[0] && nsEq(g.Namespace, o.Namespace) {
					return c17Op{}, false
				}
			}
			return c17Op{Kind: "remove configmap", Pos: o.Pos, Namespace: o.Namespace}, true
		}
		for _, g := range k.SecretGenerator {
			if g.Name == o.Pos[0] && nsEq(g.Namespace, o.Namespace) {
				return c17Op{}, false
			}
		}
		return c17Op{Kind: "remove secret", Pos: o.Pos, Namespace: o.Namespace}, true
	case "add patch":
		// guard of C17_add_remove_inverse_patch: no existing patch equals the new one once an explicit
		// empty `options: {}` has been dropped by a write (`remove patch` deletes every equal patch)
		for _, q := range k.Patches {
			if len(q.Options) != 0 || q.Path != o.Path || q.Patch != o.Patch {
				continue
			}
			var t [7]string
			if q.Target != nil {
				t = [7]string{q.Target.Group, q.Target.Version, q.Target.Kind, q.Target.Name, q.Target.Namespace, q.Target.AnnotationSelector, q.Target.LabelSelector}
			}
			if t == o.Target && !(q.Target != nil && *q.Target == (types.Selector{})) {
				return c17Op{}, false
			}
		}
		return c17Op{Kind: "remove patch", Path: o.Path, Patch: o.Patch, Target: o.Target}, true
	}
	return c17Op{}, false
}

func c17WholeJSON(k *types.Kustomization) string {
	b, _ := json.Marshal(k)
	return string(b)
}

// c17Laws evaluates the laws on the implementation for one sequence.
func c17Laws(r *Run, c *c17Case, obs []c17StepObs) {
	prev := []byte(c.Init)
	viol := func(law, class, detail string) {
		r.Violation(OracleViolation{Law: law, Class: class, Detail: detail, Replay: c})
	}
	for i, o := range c.Ops {
		after := obs[i].after
		wrote := !bytes.Equal(after, prev)
		if obs[i].cls == ClsPanic {
			// a crash of the command line tool on a file that parses: reported (C12 owns panics, but
			// the model must agree on them, and an unexpected one is worth a line)
			if !(o.Kind == "add label" && o.WoSel) {
				viol("no_panic", "panic:"+o.Kind, fmt.Sprintf("step %d %v: %s", i, o.cli(), obs[i].msg))
			}
		}
		if obs[i].cls != ClsOk && wrote {
			viol("failed_command_writes_nothing", "write-on-failure:"+o.Kind, fmt.Sprintf("step %d %v changed the file although it failed: %s", i, o.cli(), obs[i].msg))
		}
		if !wrote {
			prev = after
			continue
		}
		kPrev, errPrev := c17FixedOf(prev)
		kNew, errNew := c17FixedOf(after)
		// still parses
		if errPrev == nil && errNew != nil {
			viol("still_parses", "unparsable-after:"+o.Kind, fmt.Sprintf("step %d %v: %v\n%s", i, o.cli(), errNew, after))
			prev = after
			continue
		}
		if errPrev != nil || errNew != nil {
			prev = after
			continue
		}
		// frame
		addr := map[string]bool{}
		for _, a := range o.addressed() {
			addr[a] = true
		}
		for _, f := range c17Fields {
			if addr[f.goName] {
				continue
			}
			jo, jn := c17FieldJSON(kPrev, f), c17FieldJSON(kNew, f)
			if jo != jn {
				cls := "frame:" + o.Kind + ":" + f.goName
				if c17AbsorbedShape(jo, jn) {
					cls = c17AbsorbClass(kPrev)
				}
				viol("frame", cls, fmt.Sprintf("step %d %v changed field %s: %s -> %s", i, o.cli(), f.goName, jo, jn))
			}
		}
		// `add label --without-selector [--include-templates]` writes into the FIRST labels entry with
		// includeSelectors: false and the same includeTemplates, or appends such an entry: every other
		// entry of `labels` is one the command does not address and must come through unchanged
		if o.Kind == "add label" && o.WoSel {
			first := -1
			for j, l := range kPrev.Labels {
				if !l.IncludeSelectors && l.IncludeTemplates == o.Tpl {
					first = j
					break
				}
			}
			bad := ""
			if len(kNew.Labels) < len(kPrev.Labels) || len(kNew.Labels) > len(kPrev.Labels)+1 {
				bad = fmt.Sprintf("%d entries became %d", len(kPrev.Labels), len(kNew.Labels))
			}
			for j := range kPrev.Labels {
				if bad != "" || j == first {
					continue
				}
				if a, b := c17JsonTok(kPrev.Labels[j]), c17JsonTok(kNew.Labels[j]); a != b {
					bad = fmt.Sprintf("entry %d, which the command does not address: %s -> %s", j, a, b)
				}
			}
			if bad == "" && len(kNew.Labels) == len(kPrev.Labels)+1 {
				if n := kNew.Labels[len(kNew.Labels)-1]; n.IncludeSelectors || n.IncludeTemplates != o.Tpl || first >= 0 {
					bad = "appended entry " + c17JsonTok(n) + fmt.Sprintf(" (a matching entry exists at %d)", first)
				}
			}
			if bad != "" {
				viol("frame", "frame-labels-entry:add label", fmt.Sprintf("step %d %v: %s", i, o.cli(), bad))
			}
		}
		// add / remove patch compare with Patch.Equals, which includes the options: the commands build a patch
		// WITHOUT options, so (a) after a successful `add patch` an option-less entry with that path/patch/
		// target exists, (b) `remove patch` never deletes an entry that has options
		if (o.Kind == "add patch" || o.Kind == "remove patch") && obs[i].cls == ClsOk {
			same := func(q types.Patch) bool {
				var t [7]string
				if q.Target != nil {
					t = [7]string{q.Target.Group, q.Target.Version, q.Target.Kind, q.Target.Name, q.Target.Namespace, q.Target.AnnotationSelector, q.Target.LabelSelector}
				}
				// (the text of an inline patch may have grown by comment-looking lines: the absorption findings,
				// reported by the frame law with their own classes)
				samePatch := q.Patch == o.Patch || (o.Patch != "" && c17AbsorbedShape(c17JsonTok(o.Patch), c17JsonTok(q.Patch)))
				return q.Path == o.Path && samePatch && t == o.Target &&
					!(q.Target != nil && *q.Target == (types.Selector{}))
			}
			if o.Kind == "add patch" {
				// an entry already listed (option-less, same path / text / target): the command must leave the
				// patches list as it is
				for _, q := range kPrev.Patches {
					if same(q) && len(q.Options) == 0 && q.Patch == o.Patch {
						if a, b := c17FieldJSON(kPrev, c17MustField("Patches")), c17FieldJSON(kNew, c17MustField("Patches")); a != b {
							viol("add_duplicate_is_noop", "add-patch-duplicates-listed-entry", fmt.Sprintf("step %d %v: %s -> %s", i, o.cli(), a, b))
						}
						break
					}
				}
				found := false
				for _, q := range kNew.Patches {
					if same(q) && len(q.Options) == 0 {
						found = true
					}
				}
				if !found {
					viol("add_adds", "add-patch-not-added", fmt.Sprintf("step %d %v: no option-less entry for it in %s", i, o.cli(), c17FieldJSON(kNew, c17MustField("Patches"))))
				}
			} else {
				withOpts := func(k *types.Kustomization) int {
					n := 0
					for _, q := range k.Patches {
						if len(q.Options) > 0 {
							n++
						}
					}
					return n
				}
				if withOpts(kNew) < withOpts(kPrev) {
					viol("remove_removes_equal_only", "remove-patch-deletes-entry-with-options", fmt.Sprintf("step %d %v: %s -> %s", i, o.cli(),
						c17FieldJSON(kPrev, c17MustField("Patches")), c17FieldJSON(kNew, c17MustField("Patches"))))
				}
			}
		}
		// an add of path-like items never introduces a duplicate entry (the lists behave like sets:
		// every add command tests membership before appending) — independent of the model
		if list := map[string]string{"add resource": "Resources", "add base": "Resources", "add component": "Components",
			"add transformer": "Transformers", "add generator": "Generators"}[o.Kind]; list != "" {
			dups := func(k *types.Kustomization) int {
				f, _ := c17FieldByName(list)
				v := reflect.ValueOf(k).Elem().FieldByIndex(f.index)
				seen, n := map[string]bool{}, 0
				for j := 0; j < v.Len(); j++ {
					x := v.Index(j).String()
					if seen[x] {
						n++
					}
					seen[x] = true
				}
				return n
			}
			if dups(kNew) > dups(kPrev) {
				viol("add_no_duplicate", "add-introduces-duplicate:"+o.Kind, fmt.Sprintf("step %d %v: %s -> %s", i, o.cli(), c17FieldJSON(kPrev, c17MustField(list)), c17FieldJSON(kNew, c17MustField(list))))
			}
		}
		// comments
		lost := c17MultisetMinus(c17CommentLines(prev), c17CommentLines(after))
		if len(lost) > 0 {
			// since /repo f15d834 the trailing comments are kept too: every lost comment line is a violation
			// (the class still tells a loss confined to the trailing block from any other)
			if other := c17MultisetMinus(lost, c17TrailingComments(prev)); len(other) == 0 {
				viol("comments_kept", "trailing-comment-dropped", fmt.Sprintf("step %d %v dropped the trailing comment lines %q", i, o.cli(), lost))
			} else {
				viol("comments_kept", "comment-dropped:"+o.Kind, fmt.Sprintf("step %d %v dropped the comment lines %q (not trailing: %q)", i, o.cli(), lost, other))
			}
		}
		// set idempotence: the same command again leaves the typed content unchanged
		if c17IsSetKind(o.Kind) && obs[i].cls == ClsOk {
			fs := c17MakeFs(c, after)
			defer fs.close()
			cls2, msg2 := c17Exec(fs, o.cli())
			again := fs.read(c.KPath)
			k2, err2 := c17FixedOf(again)
			if cls2 != ClsOk || err2 != nil {
				viol("set_idempotent", "set-twice-fails:"+o.Kind, fmt.Sprintf("step %d %v second run: %s %s %v", i, o.cli(), cls2, msg2, err2))
			} else if c17WholeJSON(k2) != c17WholeJSON(kNew) {
				cls := "set-not-idempotent:" + o.Kind
				if c17AbsorbedShape(c17WholeJSON(kNew), c17WholeJSON(k2)) {
					cls = c17AbsorbClass(kNew)
				}
				viol("set_idempotent", cls, fmt.Sprintf("step %d %v: %s then %s", i, o.cli(), c17WholeJSON(kNew), c17WholeJSON(k2)))
			}
		}
		// add then the matching remove restores the content
		if strings.HasPrefix(o.Kind, "add ") && obs[i].cls == ClsOk {
			if inv, ok := c17InverseOf(o, kPrev, c); ok {
				fs := c17MakeFs(c, after)
				defer fs.close()
				cls2, msg2 := c17Exec(fs, inv.cli())
				back := fs.read(c.KPath)
				k2, err2 := c17FixedOf(back)
				if cls2 != ClsOk || err2 != nil {
					viol("add_remove_inverse", "inverse-fails:"+o.Kind, fmt.Sprintf("step %d %v then %v: %s %s %v", i, o.cli(), inv.cli(), cls2, msg2, err2))
				} else if c17WholeJSON(k2) != c17WholeJSON(kPrev) {
					cls := "add-remove-not-inverse:" + o.Kind
					if c17AbsorbedShape(c17WholeJSON(kPrev), c17WholeJSON(k2)) {
						cls = c17AbsorbClass(kPrev)
					}
					// the patch text just added has itself grown by re-emitted comment lines, so the
					// matching `remove patch` no longer finds it
					if o.Kind == "add patch" && len(kNew.Patches) > 0 {
						last := kNew.Patches[len(kNew.Patches)-1].Patch
						if last != o.Patch && c17AbsorbedShape(c17JsonTok(o.Patch), c17JsonTok(last)) {
							cls = c17AbsorbClass(kPrev)
						}
					}
					viol("add_remove_inverse", cls, fmt.Sprintf("step %d %v then %v: before %s after %s", i, o.cli(), inv.cli(), c17WholeJSON(kPrev), c17WholeJSON(k2)))
				}
			}
		}
		prev = after
	}
}

// ---------------------------------------------------------------- generators

var (
	c17FileUniverse = []string{"a.yaml", "b.yaml", "c.yaml", "dep.yaml", "svc.yaml", "t1.yaml", "t2.yaml", "patch.yaml",
		"sub/d.yaml", "sub/e.yaml", "app.env", "db.env", "base/kustomization.yaml", "base/r.yaml"}
	c17ResNames   = []string{"a.yaml", "b.yaml", "c.yaml", "dep.yaml", "svc.yaml", "sub/d.yaml", "sub/e.yaml", "sub", "base", "missing.yaml", "t1.yaml"}
	c17Patterns   = []string{"*.yaml", "?.yaml", "sub/*", "*.env", "t?.yaml", "zz*", "*", "sub/?.yaml", "*/d.yaml", "a*"}
	c17LabelKeys  = []string{"app", "env", "tier", "team", "example.com/name", "k8s.io/part-of"}
	c17LabelVals  = []string{"web", "prod", "1", "true", "v1", "", "x y"}
	c17Namespaces = []string{"", "default", "prod", "staging"}
	c17ImageNames = []string{"nginx", "redis", "gcr.io/proj/app", "busybox", "localhost:5000/img"}
	c17Tags       = []string{"1.2", "latest", "v3", "8.15.0", "*"}
	c17Digests    = []string{"sha256:24a0c4b4a4c0", "*"}
	c17GenNames   = []string{"cm1", "cm2", "settings", "s1", "creds"}
	c17EnvKeys    = []string{"A", "B", "C", "k1", "k2"}
	c17BuildOpts  = []string{"originAnnotations", "transformerAnnotations", "managedByLabel", "bogusOption"}
	c17Comments   = []string{"# comment", "", "#", "# - old.yaml", "#commented: out", "# resources:", "#  note: x", "   "}
	c17Indented   = []string{"  # indented", "    # deep", " #one", "      # deeper"}
)

func c17PickSome(g *Rng, pool []string, min, max int) []string {
	n := min + g.Intn(max-min+1)
	var out []string
	for i := 0; i < n; i++ {
		out = append(out, g.Pick(pool))
	}
	return out
}

func c17PickDistinct(g *Rng, pool []string, min, max int) []string {
	n := min + g.Intn(max-min+1)
	perm := append([]string{}, pool...)
	for i := len(perm) - 1; i > 0; i-- {
		j := g.Intn(i + 1)
		perm[i], perm[j] = perm[j], perm[i]
	}
	if n > len(perm) {
		n = len(perm)
	}
	return perm[:n]
}

func c17GenSmap(g *Rng, min, max int) map[string]string {
	m := map[string]string{}
	for _, k := range c17PickDistinct(g, c17LabelKeys, min, max) {
		m[k] = g.Pick(c17LabelVals)
	}
	return m
}

func c17GenPatchText(g *Rng, adversarial bool) string {
	lines := []string{"apiVersion: v1", "kind: ConfigMap", "metadata:", "  name: " + g.Pick(c17GenNames)}
	if adversarial {
		at := g.Intn(len(lines) + 1)
		lines = append(lines[:at], append([]string{g.Pick([]string{"# note", "  # inner note", ""})}, lines[at:]...)...)
		if g.Chance(50) {
			lines = append(lines, "# last")
		}
	}
	s := strings.Join(lines, "\n")
	if g.Chance(50) {
		s += "\n"
	}
	return s
}

func c17GenSelector(g *Rng) *types.Selector {
	s := &types.Selector{}
	if g.Chance(60) {
		s.Kind = g.Pick([]string{"Deployment", "Service", "ConfigMap"})
	}
	if g.Chance(40) {
		s.Name = g.Pick([]string{"web", "db", "app.*"})
	}
	if g.Chance(20) {
		s.Group = "apps"
		s.Version = "v1"
	}
	if g.Chance(15) {
		s.Namespace = g.Pick(c17Namespaces)
	}
	if g.Chance(15) {
		s.LabelSelector = "app=web"
	}
	if g.Chance(8) {
		s.AnnotationSelector = "a=b"
	}
	return s
}

func c17GenPatch(g *Rng, adversarial bool) types.Patch {
	p := types.Patch{}
	if g.Chance(60) {
		p.Path = g.Pick([]string{"patch.yaml", "a.yaml", "sub/d.yaml"})
	} else {
		p.Patch = c17GenPatchText(g, adversarial)
	}
	if g.Chance(55) {
		p.Target = c17GenSelector(g)
	}
	if g.Chance(22) {
		// entries WITH options: Patch.Equals must tell them from the option-less patch the commands build
		p.Options = map[string]bool{g.Pick([]string{"allowNameChange", "allowKindChange"}): g.Bool()}
		if g.Chance(30) {
			p.Options["allowKindChange"] = true
		}
	} else if g.Chance(4) {
		p.Options = map[string]bool{}
	}
	return p
}

func c17GenGenArgs(g *Rng, files []string) types.GeneratorArgs {
	a := types.GeneratorArgs{Name: g.Pick(c17GenNames)}
	if g.Chance(30) {
		a.Namespace = g.Pick(c17Namespaces)
	}
	if g.Chance(15) {
		a.Behavior = g.Pick([]string{"create", "merge", "replace"})
	}
	if g.Chance(60) {
		for _, k := range c17PickDistinct(g, []string{"x", "y", "z", "A"}, 1, 2) {
			a.LiteralSources = append(a.LiteralSources, k+"="+g.Pick(c17LabelVals))
		}
	}
	if g.Chance(35) && len(files) > 0 {
		a.FileSources = append(a.FileSources, g.Pick(files))
	}
	if g.Chance(20) {
		a.EnvSources = append(a.EnvSources, g.Pick([]string{"app.env", "db.env"}))
	}
	if g.Chance(12) {
		a.EnvSource = g.Pick([]string{"app.env", "db.env"})
	}
	if g.Chance(20) {
		a.Options = &types.GeneratorOptions{}
		if g.Chance(50) {
			a.Options.Labels = c17GenSmap(g, 1, 2)
		}
		if g.Chance(30) {
			a.Options.Annotations = c17GenSmap(g, 1, 1)
		}
		a.Options.DisableNameSuffixHash = g.Chance(40)
		a.Options.Immutable = g.Chance(20)
	}
	return a
}

// c17GenKust: a random typed kustomization (every field the model knows, deprecated spellings included).
func c17GenKust(g *Rng, present []string, adversarial bool) *types.Kustomization {
	k := &types.Kustomization{}
	if g.Chance(60) {
		k.APIVersion = types.KustomizationVersion
		k.Kind = types.KustomizationKind
		if g.Chance(8) {
			k.Kind = types.ComponentKind
			k.APIVersion = types.ComponentVersion
		}
	} else if g.Chance(20) {
		k.Kind = g.Pick([]string{types.KustomizationKind, types.ComponentKind})
	}
	if g.Chance(70) {
		k.Resources = c17PickDistinct(g, c17ResNames, 1, 4)
	}
	if g.Chance(25) {
		k.Bases = c17PickDistinct(g, []string{"base", "sub", "../other"}, 1, 2)
	}
	if g.Chance(30) {
		k.NamePrefix = g.Pick([]string{"dev-", "acme-"})
	}
	if g.Chance(20) {
		k.NameSuffix = g.Pick([]string{"-v1", "-x"})
	}
	if g.Chance(40) {
		k.Namespace = g.Pick([]string{"default", "prod", "staging"})
	}
	if g.Chance(35) {
		k.CommonLabels = c17GenSmap(g, 0, 3)
	}
	if g.Chance(30) {
		n := 1 + g.Intn(2)
		for i := 0; i < n; i++ {
			l := types.Label{IncludeSelectors: g.Chance(30), IncludeTemplates: g.Chance(30)}
			if g.Chance(88) {
				l.Pairs = c17GenSmap(g, 0, 2)
			}
			if g.Chance(10) {
				l.FieldSpecs = []types.FieldSpec{{Path: "spec/x", CreateIfNotPresent: true, Gvk: resid.Gvk{Kind: "Foo"}}}
			}
			k.Labels = append(k.Labels, l)
		}
	}
	if g.Chance(25) {
		k.CommonAnnotations = c17GenSmap(g, 0, 2)
	}
	if g.Chance(15) {
		for _, p := range c17PickDistinct(g, []string{"patch.yaml", "a.yaml", "nofile.yaml"}, 1, 2) {
			k.PatchesStrategicMerge = append(k.PatchesStrategicMerge, types.PatchStrategicMerge(p))
		}
	}
	if g.Chance(10) {
		k.PatchesJson6902 = []types.Patch{{Path: "patch.yaml", Target: &types.Selector{ResId: resid.ResId{Name: "web", Gvk: resid.Gvk{Kind: "Deployment"}}}}}
	}
	if g.Chance(35) {
		n := 1 + g.Intn(3)
		for i := 0; i < n; i++ {
			k.Patches = append(k.Patches, c17GenPatch(g, adversarial))
		}
		if g.Chance(10) {
			k.Patches = append(k.Patches, types.Patch{Path: "patch.yaml", Target: &types.Selector{}})
		}
	}
	genImage := func() types.Image {
		im := types.Image{Name: g.Pick(c17ImageNames)}
		if g.Chance(50) {
			im.NewName = g.Pick([]string{"mirror/" + path.Base(im.Name), "other", "*"})
		}
		if g.Chance(60) {
			im.NewTag = g.Pick(c17Tags)
		}
		if g.Chance(15) {
			im.Digest = g.Pick(c17Digests)
		}
		if g.Chance(8) {
			im.TagSuffix = "-dbg"
		}
		return im
	}
	if g.Chance(35) {
		n := 1 + g.Intn(3)
		for i := 0; i < n; i++ {
			k.Images = append(k.Images, genImage())
		}
	}
	if g.Chance(10) {
		k.ImageTags = []types.Image{genImage()}
	}
	if g.Chance(25) {
		for _, n := range c17PickSome(g, []string{"web", "db", "cache"}, 1, 3) {
			k.Replicas = append(k.Replicas, types.Replica{Name: n, Count: int64(g.Intn(6)) - 1})
		}
	}
	if g.Chance(15) {
		k.Components = c17PickDistinct(g, []string{"sub", "base", "comp"}, 1, 2)
	}
	if g.Chance(35) {
		n := 1 + g.Intn(2)
		for i := 0; i < n; i++ {
			k.ConfigMapGenerator = append(k.ConfigMapGenerator, types.ConfigMapArgs{GeneratorArgs: c17GenGenArgs(g, present)})
		}
	}
	if g.Chance(25) {
		k.SecretGenerator = append(k.SecretGenerator, types.SecretArgs{GeneratorArgs: c17GenGenArgs(g, present), Type: g.Pick([]string{"", "Opaque", "kubernetes.io/tls"})})
	}
	if g.Chance(35) {
		k.GeneratorOptions = &types.GeneratorOptions{DisableNameSuffixHash: g.Chance(50), Immutable: g.Chance(20)}
		if g.Chance(60) {
			k.GeneratorOptions.Labels = c17GenSmap(g, 0, 2)
		}
		if g.Chance(30) {
			k.GeneratorOptions.Annotations = c17GenSmap(g, 1, 1)
		}
	}
	if g.Chance(12) {
		k.Generators = c17PickDistinct(g, []string{"t1.yaml", "gen.yaml"}, 1, 2)
	}
	if g.Chance(15) {
		k.Transformers = c17PickDistinct(g, []string{"t1.yaml", "t2.yaml", "tr.yaml"}, 1, 2)
	}
	if g.Chance(15) {
		k.BuildMetadata = c17PickDistinct(g, c17BuildOpts[:3], 1, 2)
	}
	// fields no edit command touches
	if g.Chance(8) {
		k.MetaData = &types.ObjectMeta{Name: "my-kust", Annotations: map[string]string{"config.kubernetes.io/local-config": "true"}}
	}
	if g.Chance(3) {
		k.MetaData = &types.ObjectMeta{}
	}
	if g.Chance(6) {
		k.OpenAPI = map[string]string{"path": "schema.json"}
	}
	if g.Chance(6) {
		k.Crds = []string{"crd.yaml"}
	}
	if g.Chance(6) {
		k.Replacements = []types.ReplacementField{{Path: "repl.yaml"}}
	}
	if g.Chance(6) {
		k.Vars = []types.Var{{Name: "V", ObjRef: types.Target{APIVersion: "v1", Name: "cm", Gvk: resid.Gvk{Kind: "ConfigMap"}}}}
	}
	if g.Chance(6) {
		k.SortOptions = &types.SortOptions{Order: "fifo"}
	}
	if g.Chance(5) {
		k.Configurations = []string{"conf.yaml"}
	}
	if g.Chance(5) {
		k.Validators = []string{"val.yaml"}
	}
	if g.Chance(4) {
		k.HelmGlobals = &types.HelmGlobals{ChartHome: "charts"}
	}
	if g.Chance(4) {
		k.HelmCharts = []types.HelmChart{{Name: "chart", Version: "1.0.0"}}
	}
	return k
}

var c17SimpleItem = func(s string) bool {
	if s == "" {
		return false
	}
	for i := 0; i < len(s); i++ {
		c := s[i]
		if !(c >= 'a' && c <= 'z' || c >= '0' && c <= '9' || c == '.' || c == '/' || c == '_' || c == '-') {
			return false
		}
	}
	return !(s[0] >= '0' && s[0] <= '9') && s[0] != '-' && s[0] != '.'
}

// layout renders the typed value as file text: field order, key spelling, comments.
func c17Layout(g *Rng, k *types.Kustomization, flavour string) string {
	type block struct {
		name  string
		lines []string
	}
	var blocks []block
	rv := reflect.ValueOf(k).Elem()
	for _, f := range c17Fields {
		v := rv.FieldByIndex(f.index)
		if c17IsEmpty(v) && !(v.Kind() == reflect.Map && !v.IsNil() && g.Chance(50)) {
			continue
		}
		var lines []string
		if v.Kind() == reflect.Map && v.Len() == 0 {
			// an explicit empty map: `commonLabels: {}`
			jn := strings.Split(reflect.TypeOf(*k).FieldByIndex(f.index).Tag.Get("json"), ",")[0]
			lines = []string{jn + ": {}"}
		} else {
			b, _ := yaml.Marshal(c17Single(k, f))
			lines, _, _ = c17SplitLines(b)
		}
		// flow style for plain string lists
		if v.Kind() == reflect.Slice && v.Type().Elem().Kind() == reflect.String && g.Chance(8) {
			ok := true
			var items []string
			for i := 0; i < v.Len(); i++ {
				s := v.Index(i).String()
				if !c17SimpleItem(s) {
					ok = false
				}
				items = append(items, s)
			}
			if ok {
				lines = []string{strings.SplitN(lines[0], ":", 2)[0] + ": [" + strings.Join(items, ", ") + "]"}
			}
		}
		if g.Chance(2) {
			lines[0] = strings.ToUpper(lines[0][:1]) + lines[0][1:]
		}
		blocks = append(blocks, block{f.goName, lines})
	}
	// order: canonical-ish (struct order) or shuffled
	if g.Chance(55) {
		for i := len(blocks) - 1; i > 0; i-- {
			j := g.Intn(i + 1)
			blocks[i], blocks[j] = blocks[j], blocks[i]
		}
	}
	// a line `imageTags:` is not recognised as a field by the comment scanner; keep a recognised
	// field in front of it so that comments before it stay attached somewhere (documented domain)
	if len(blocks) > 1 && blocks[0].name == "ImageTags" {
		blocks[0], blocks[1] = blocks[1], blocks[0]
	}
	pool := c17Comments
	if flavour == "B" {
		pool = append(append([]string{}, c17Comments...), c17Indented...)
	}
	var out []string
	if g.Chance(3) {
		out = append(out, "---")
	}
	for _, b := range blocks {
		switch n := g.Intn(100); {
		case n < 55:
		case n < 80:
			out = append(out, g.Pick(pool))
		case n < 93:
			out = append(out, g.Pick(pool), g.Pick(pool))
		default:
			out = append(out, g.Pick(pool), g.Pick(pool), g.Pick(pool))
		}
		lines := b.lines
		if len(lines) > 1 && g.Chance(20) {
			at := 1 + g.Intn(len(lines)-1)
			// an inserted line inside a block scalar would change the value: only insert where the
			// previous line does not open or continue a literal block
			inBlock := false
			for _, l := range lines[:at] {
				t := strings.TrimRight(l, " ")
				if strings.HasSuffix(t, "|") || strings.HasSuffix(t, "|-") || strings.HasSuffix(t, "|+") || strings.HasSuffix(t, ">") || strings.HasSuffix(t, ">-") {
					inBlock = true
				}
			}
			if !inBlock {
				c := g.Pick([]string{"# inner", "# - disabled.yaml", ""})
				if flavour == "B" {
					c = g.Pick(append([]string{c}, c17Indented...))
				}
				lines = append(append(append([]string{}, lines[:at]...), c), lines[at:]...)
			}
		}
		out = append(out, lines...)
	}
	if g.Chance(25) {
		out = append(out, c17PickSome(g, pool, 1, 2)...)
	}
	if g.Chance(2) {
		out = append(out, "bogusField: 1")
	}
	txt := strings.Join(out, "\n")
	if len(out) > 0 && !g.Chance(6) {
		txt += "\n"
	}
	return txt
}

func genCase17(g *Rng, maxOps int) (*c17Case, []c17StepObs) {
	c := &c17Case{Files: map[string]string{}, Flavour: "A"}
	if g.Chance(12) {
		c.Flavour = "B"
	}
	switch n := g.Intn(100); {
	case n < 80:
		c.KPath = "kustomization.yaml"
	case n < 90:
		c.KPath = "kustomization.yml"
	default:
		c.KPath = "Kustomization"
	}
	var present []string
	for _, f := range c17FileUniverse {
		if g.Chance(80) {
			var b strings.Builder
			for _, k := range c17PickDistinct(g, c17EnvKeys, 0, 3) {
				b.WriteString(k + "=" + g.Pick([]string{"1", "v", "x y"}) + "\n")
			}
			if g.Chance(20) {
				b.WriteString("# comment\n\n")
			}
			c.Files[f] = b.String()
			present = append(present, f)
		}
	}
	k := c17GenKust(g, present, c.Flavour == "B")
	c.Init = c17Layout(g, k, c.Flavour)
	if g.Chance(2) {
		// duplicated top-level key (go-yaml v2 accepts it, last one wins)
		c.Init = "namespace: first\n" + c.Init
		if !strings.HasSuffix(c.Init, "\n") {
			c.Init += "\n"
		}
		c.Init += "namespace: second\n"
	}
	n := 1 + g.Intn(maxOps)
	cur := []byte(c.Init)
	fs := c17MakeFs(c, cur)
	defer fs.close()
	var obs []c17StepObs
	for i := 0; i < n; i++ {
		kc, _ := c17FixedOf(cur)
		if kc == nil {
			kc = &types.Kustomization{}
		}
		// later operations aim at what exists after the earlier ones: the sequence is generated
		// while it runs (a replay re-runs the recorded operations from Init and sees the same)
		o := genOp17(g, kc, present, c.Flavour == "B")
		c.Ops = append(c.Ops, o)
		cls, msg := c17Exec(fs, o.cli())
		prevBytes := cur
		cur = fs.read(c.KPath)
		obs = append(obs, c17StepObs{cls, msg, cur})
		if (o.Kind == "set configmap" || o.Kind == "set secret") && cls == ClsOk {
			c.Ops[len(c.Ops)-1].Ord = c17LiteralOrder(o, prevBytes, cur)
		}
	}
	return c, obs
}

// c17LiteralOrder: the literal keys, in file order, of the entry `set configmap|secret` addressed
// (the iteration-order oracle of the model): the entry keeps its index.
func c17LiteralOrder(o c17Op, prev, after []byte) []string {
	kp, err1 := c17FixedOf(prev)
	ka, err2 := c17FixedOf(after)
	if err1 != nil || err2 != nil || len(o.Pos) != 1 {
		return nil
	}
	nsEq := func(a, b string) bool {
		if a == "" {
			a = "default"
		}
		if b == "" {
			b = "default"
		}
		return a == b
	}
	var before, now []types.GeneratorArgs
	if o.Kind == "set configmap" {
		for _, x := range kp.ConfigMapGenerator {
			before = append(before, x.GeneratorArgs)
		}
		for _, x := range ka.ConfigMapGenerator {
			now = append(now, x.GeneratorArgs)
		}
	} else {
		for _, x := range kp.SecretGenerator {
			before = append(before, x.GeneratorArgs)
		}
		for _, x := range ka.SecretGenerator {
			now = append(now, x.GeneratorArgs)
		}
	}
	for i, x := range before {
		if x.Name == o.Pos[0] && nsEq(o.Namespace, x.Namespace) {
			if i >= len(now) {
				return nil
			}
			var ord []string
			for _, l := range now[i].LiteralSources {
				ord = append(ord, strings.SplitN(l, "=", 2)[0])
			}
			return ord
		}
	}
	return nil
}

func c17ExistingOr(g *Rng, existing []string, pool []string) string {
	if len(existing) > 0 && g.Chance(60) {
		return g.Pick(existing)
	}
	return g.Pick(pool)
}

func c17GenKV(g *Rng, existing map[string]string) string {
	var keys []string
	for k := range existing {
		keys = append(keys, k)
	}
	sort.Strings(keys)
	key := c17ExistingOr(g, keys, c17LabelKeys)
	switch n := g.Intn(100); {
	case n < 75:
		return key + ":" + g.Pick([]string{"web", "prod", "1", "v2", "\"quoted\"", "a:b"})
	case n < 88:
		return key
	case n < 94:
		return key + ":"
	default:
		return ":" + key
	}
}

func genOp17(g *Rng, k *types.Kustomization, present []string, adversarial bool) c17Op {
	kinds := []struct {
		k string
		w int
	}{
		{"add resource", 10}, {"remove resource", 8}, {"add component", 3}, {"add base", 3},
		{"add transformer", 4}, {"remove transformer", 3}, {"add generator", 3},
		{"add label", 9}, {"remove label", 6}, {"set label", 4},
		{"add annotation", 6}, {"remove annotation", 4}, {"set annotation", 4},
		{"add buildmetadata", 4}, {"remove buildmetadata", 3}, {"set buildmetadata", 3},
		{"add configmap", 8}, {"remove configmap", 4}, {"add secret", 5}, {"remove secret", 3},
		{"add patch", 6}, {"remove patch", 4},
		{"set image", 8}, {"set replicas", 5}, {"set configmap", 6}, {"set secret", 5}, {"set namespace", 5}, {"set nameprefix", 3}, {"set namesuffix", 3},
	}
	tot := 0
	for _, x := range kinds {
		tot += x.w
	}
	n := g.Intn(tot)
	kind := ""
	for _, x := range kinds {
		if n < x.w {
			kind = x.k
			break
		}
		n -= x.w
	}
	// MergeGlobalOptionsIntoLocal copies the top-level generatorOptions into the addressed entry: make the
	// combination "top-level generatorOptions + an entry that gets / has options of its own" frequent
	aimGen := false
	if k.GeneratorOptions != nil && g.Chance(45) {
		kind = g.Pick([]string{"add secret", "add configmap", "add secret"})
		aimGen = true
	}
	// `add label --without-selector` must pick its labels entry by BOTH includeSelectors and includeTemplates:
	// aim at files that already have labels entries (with selectors, with templates)
	aimLabels := false
	if len(k.Labels) > 0 && !aimGen && g.Chance(25) {
		kind = "add label"
		aimLabels = true
	}
	// `set configmap|secret` can only succeed on an existing entry: create one first when there is none
	if kind == "set configmap" && len(k.ConfigMapGenerator) == 0 {
		kind = "add configmap"
	}
	if kind == "set secret" && len(k.SecretGenerator) == 0 {
		kind = "add secret"
	}
	o := c17Op{Kind: kind}
	pathArg := func(existing []string) string {
		switch n := g.Intn(100); {
		case n < 6:
			// the kustomization file itself (add resource/component must skip it), or a glob catching it
			return g.Pick([]string{"kustomization.yaml", "kustomization.yml", "Kustomization", "*.yaml", "*", "?ustomization*"})
		case n < 55:
			return c17ExistingOr(g, existing, c17ResNames)
		case n < 85:
			return g.Pick(c17Patterns)
		default:
			return g.Pick(c17ResNames)
		}
	}
	switch kind {
	case "add resource":
		o.Pos = []string{pathArg(nil)}
		if g.Chance(25) {
			o.Pos = append(o.Pos, pathArg(nil))
		}
		if g.Chance(20) {
			// the same item twice in ONE invocation: literally, or through a glob that catches it
			o.Pos = append(o.Pos, g.Pick([]string{o.Pos[0], o.Pos[0], "*.yaml", "*", "sub/*"}))
		}
		o.NoVerify = g.Chance(20)
		if g.Chance(3) {
			o.Pos = nil
		}
	case "add component":
		o.Pos = []string{g.Pick([]string{"sub", "base", "comp", "a.yaml", "sub/*"})}
		if g.Chance(20) {
			o.Pos = append(o.Pos, g.Pick([]string{o.Pos[0], "sub/*", "*"}))
		}
	case "add base":
		o.Pos = []string{g.Pick([]string{"base", "sub", "base,sub", "nodir", "a.yaml", "sub,sub"})}
		if g.Chance(5) {
			o.Pos = append(o.Pos, "base")
		}
	case "add transformer", "add generator":
		o.Pos = []string{g.Pick([]string{"t1.yaml", "t2.yaml", "t?.yaml", "tr.yaml", "*.yaml", "sub/*"})}
		if g.Chance(20) {
			o.Pos = append(o.Pos, g.Pick([]string{"t1.yaml", "t2.yaml"}))
		}
		if g.Chance(20) {
			o.Pos = append(o.Pos, g.Pick([]string{o.Pos[0], "t?.yaml", "*.yaml"}))
		}
	case "remove resource":
		o.Pos = []string{pathArg(k.Resources)}
		if g.Chance(20) {
			o.Pos = append(o.Pos, pathArg(k.Resources))
		}
	case "remove transformer":
		o.Pos = []string{c17ExistingOr(g, k.Transformers, []string{"t1.yaml", "t?.yaml", "*"})}
	case "add label":
		o.WoSel = g.Chance(35)
		o.Tpl = g.Chance(15)
		o.Force = g.Chance(30)
		if aimLabels {
			o.WoSel = true
			o.Tpl = k.Labels[g.Intn(len(k.Labels))].IncludeTemplates
			o.Force = g.Chance(50)
		}
		m := k.CommonLabels
		if o.WoSel {
			m = nil
			for _, l := range k.Labels {
				if !l.IncludeSelectors && l.IncludeTemplates == o.Tpl {
					m = l.Pairs
					break
				}
			}
		}
		o.Pos = []string{c17GenKV(g, m)}
		if g.Chance(35) {
			o.Pos = append(o.Pos, c17GenKV(g, m))
		}
	case "add annotation":
		o.Force = g.Chance(30)
		o.Pos = []string{c17GenKV(g, k.CommonAnnotations)}
		if g.Chance(30) {
			o.Pos = append(o.Pos, c17GenKV(g, k.CommonAnnotations))
		}
	case "set label":
		o.Pos = []string{c17GenKV(g, k.CommonLabels)}
		if g.Chance(30) {
			o.Pos = append(o.Pos, c17GenKV(g, k.CommonLabels))
		}
	case "set annotation":
		o.Pos = []string{c17GenKV(g, k.CommonAnnotations)}
		if g.Chance(25) {
			o.Pos = append(o.Pos, g.Pick([]string{"-bad:1", "a/b/c:1", "UPPER_ok:1", "x*y:2", "ok.key/name-1:3", "/x:1"}))
		}
	case "remove label", "remove annotation":
		m := k.CommonLabels
		if kind == "remove annotation" {
			m = k.CommonAnnotations
		}
		var keys []string
		for key := range m {
			keys = append(keys, key)
		}
		sort.Strings(keys)
		a := c17ExistingOr(g, keys, c17LabelKeys)
		if g.Chance(30) {
			a += "," + c17ExistingOr(g, keys, c17LabelKeys)
		}
		if g.Chance(4) {
			a += ","
		}
		o.Pos = []string{a}
		o.Ignore = g.Chance(30)
		if g.Chance(4) {
			o.Pos = append(o.Pos, "extra")
		}
	case "add buildmetadata", "remove buildmetadata", "set buildmetadata":
		a := c17ExistingOr(g, k.BuildMetadata, c17BuildOpts)
		if g.Chance(35) {
			a += "," + g.Pick(c17BuildOpts)
		}
		o.Pos = []string{a}
	case "add configmap", "add secret":
		var names []string
		if kind == "add configmap" {
			for _, x := range k.ConfigMapGenerator {
				names = append(names, x.Name)
			}
		} else {
			for _, x := range k.SecretGenerator {
				names = append(names, x.Name)
			}
		}
		o.Pos = []string{c17ExistingOr(g, names, c17GenNames)}
		if aimGen {
			// prefer an existing entry that already has an `options:` block
			var withOpts []string
			if kind == "add configmap" {
				for _, x := range k.ConfigMapGenerator {
					if x.Options != nil {
						withOpts = append(withOpts, x.Name)
					}
				}
			} else {
				for _, x := range k.SecretGenerator {
					if x.Options != nil {
						withOpts = append(withOpts, x.Name)
					}
				}
			}
			if len(withOpts) > 0 && g.Chance(60) {
				o.Pos = []string{g.Pick(withOpts)}
			}
		}
		switch n := g.Intn(100); {
		case aimGen:
			// a literal with a fresh key keeps the command valid most of the time
			o.Literals = []string{g.Pick([]string{"q1", "q2", "q3", "q4"}) + "=" + g.Pick([]string{"1", "v"})}
		case n < 55:
			for _, key := range c17PickDistinct(g, []string{"x", "y", "z", "A", "k1"}, 1, 2) {
				o.Literals = append(o.Literals, key+"="+g.Pick([]string{"1", "v", "a=b", "'q'"}))
			}
			if g.Chance(25) {
				o.Files = []string{g.Pick([]string{"a.yaml", "sub/d.yaml", "mykey=b.yaml", "*.env", "k=*.yaml", "nope.yaml"})}
			}
		case n < 80:
			o.Files = []string{g.Pick([]string{"a.yaml", "sub/d.yaml", "mykey=b.yaml", "*.env", "k=*.yaml", "nope.yaml", "sub/*"})}
		case n < 95:
			o.EnvFile = g.Pick([]string{"app.env", "db.env", "nope.env"})
			if g.Chance(10) {
				o.Literals = []string{"x=1"}
			}
		default:
		}
		if g.Chance(6) {
			o.Literals = append(o.Literals, g.Pick([]string{"novalue", "=v"}))
		}
		o.DisableHash = g.Chance(15) || (aimGen && g.Chance(50))
		if kind == "add configmap" && g.Chance(20) {
			o.Behavior = g.Pick([]string{"create", "merge", "replace", "bogus"})
		}
		if g.Chance(30) {
			o.Namespace = g.Pick(c17Namespaces[1:])
		}
		if kind == "add secret" && g.Chance(25) {
			o.SType = g.Pick([]string{"Opaque", "kubernetes.io/tls"})
		}
		if g.Chance(3) {
			o.Pos = append(o.Pos, "second")
		}
	case "set configmap", "set secret":
		var entries []types.GeneratorArgs
		if kind == "set configmap" {
			for _, x := range k.ConfigMapGenerator {
				entries = append(entries, x.GeneratorArgs)
			}
		} else {
			for _, x := range k.SecretGenerator {
				entries = append(entries, x.GeneratorArgs)
			}
		}
		var names, keys []string
		for _, x := range entries {
			names = append(names, x.Name)
		}
		o.Pos = []string{c17ExistingOr(g, names, c17GenNames)}
		if len(names) > 0 && g.Chance(75) {
			o.Pos = []string{g.Pick(names)}
		}
		for _, x := range entries {
			if x.Name == o.Pos[0] {
				for _, l := range x.LiteralSources {
					keys = append(keys, strings.SplitN(l, "=", 2)[0])
				}
				if g.Chance(70) {
					o.Namespace = x.Namespace
				}
				break
			}
		}
		switch n := g.Intn(100); {
		case n < 65 && len(keys) > 0:
			// mostly valid: new values for one or two existing keys
			for _, key := range c17PickDistinct(g, keys, 1, 2) {
				o.Literals = append(o.Literals, key+"="+g.Pick([]string{"new", "2", "3", "x y"}))
			}
		case n < 90:
			cnt := 1 + g.Intn(2)
			for i := 0; i < cnt; i++ {
				key := c17ExistingOr(g, keys, []string{"x", "nokey"})
				o.Literals = append(o.Literals, key+g.Pick([]string{"=new", "=2", "=a=b", "", "="}))
			}
		}
		if g.Chance(30) {
			o.NewNS = g.Pick(c17Namespaces[1:])
		}
		if g.Chance(10) && o.Namespace == "" {
			o.Namespace = g.Pick(c17Namespaces[1:])
		}
		if g.Chance(2) {
			o.Pos = append(o.Pos, "second")
		}
	case "remove configmap", "remove secret":
		var names []string
		if kind == "remove configmap" {
			for _, x := range k.ConfigMapGenerator {
				names = append(names, x.Name)
			}
		} else {
			for _, x := range k.SecretGenerator {
				names = append(names, x.Name)
			}
		}
		a := c17ExistingOr(g, names, c17GenNames)
		if g.Chance(25) {
			a += "," + g.Pick(c17GenNames)
		}
		o.Pos = []string{a}
		if g.Chance(35) {
			o.Namespace = g.Pick(c17Namespaces[1:])
		}
	case "add patch", "remove patch":
		if len(k.Patches) > 0 && g.Chance(55) {
			p := k.Patches[g.Intn(len(k.Patches))]
			o.Path, o.Patch = p.Path, p.Patch
			if p.Target != nil {
				o.Target = [7]string{p.Target.Group, p.Target.Version, p.Target.Kind, p.Target.Name, p.Target.Namespace, p.Target.AnnotationSelector, p.Target.LabelSelector}
			}
		} else {
			p := c17GenPatch(g, adversarial)
			o.Path, o.Patch = p.Path, p.Patch
			if p.Target != nil {
				o.Target = [7]string{p.Target.Group, p.Target.Version, p.Target.Kind, p.Target.Name, p.Target.Namespace, p.Target.AnnotationSelector, p.Target.LabelSelector}
			}
		}
		if g.Chance(4) {
			o.Path, o.Patch = "patch.yaml", "a: b"
		}
		if g.Chance(4) {
			o.Path, o.Patch = "", ""
		}
	case "set image":
		var names []string
		for _, im := range k.Images {
			names = append(names, im.Name)
		}
		one := func() string {
			name := c17ExistingOr(g, names, c17ImageNames)
			switch n := g.Intn(100); {
			case n < 30:
				return name + ":" + g.Pick(c17Tags)
			case n < 55:
				return name + "=" + g.Pick([]string{"mirror/x", "other", "*", "reg.io:5000/y"}) + ":" + g.Pick(c17Tags)
			case n < 65:
				return name + "=" + g.Pick([]string{"mirror/x", "*"})
			case n < 78:
				return name + "@" + g.Pick(c17Digests)
			case n < 88:
				return name + "=" + g.Pick([]string{"other", "*"}) + ":" + g.Pick(c17Tags) + "@" + g.Pick(c17Digests)
			case n < 94:
				return name
			default:
				return g.Pick([]string{"=x:1", "a=b=c:2", "x:y:z", "@d"})
			}
		}
		o.Pos = []string{one()}
		if g.Chance(35) {
			o.Pos = append(o.Pos, one())
		}
	case "set replicas":
		var names []string
		for _, r := range k.Replicas {
			names = append(names, r.Name)
		}
		one := func() string {
			return c17ExistingOr(g, names, []string{"web", "db", "cache", "job"}) + g.Pick([]string{"=3", "=0", "=-1", "=+2", "=x", "", "=1=2", "=9223372036854775807", "=9223372036854775808", "=007"})
		}
		o.Pos = []string{one()}
		if g.Chance(35) {
			o.Pos = append(o.Pos, one())
		}
	case "set namespace":
		o.Pos = []string{g.Pick([]string{"prod", "staging", "default", "kube-system", "x y"})}
		if g.Chance(5) {
			o.Pos = append(o.Pos, "two")
		}
		if g.Chance(3) {
			o.Pos = nil
		}
	case "set nameprefix":
		o.Pos = []string{g.Pick([]string{"dev-", "acme-", "p"})}
		if g.Chance(5) {
			o.Pos = append(o.Pos, "two")
		}
	case "set namesuffix":
		o.Pos = []string{g.Pick([]string{"-v1", "-x", "s"})}
	}
	// cobra would read a positional argument starting with '-' as a flag
	for i, p := range o.Pos {
		if strings.HasPrefix(p, "-") {
			o.Pos[i] = "x" + p
		}
	}
	return o
}

// ---------------------------------------------------------------- run / replay

func c17RunOne(r *Run, c *c17Case, obs []c17StepObs, toModel bool) {
	if obs == nil {
		obs = c17RunSeq(c)
	}
	nontrivial := false
	prev := []byte(c.Init)
	for i, o := range c.Ops {
		r.Count("op", o.Kind)
		r.Count("class", obs[i].cls)
		wrote := !bytes.Equal(prev, obs[i].after)
		if wrote {
			nontrivial = true
			r.Count("effect", "wrote")
		} else if obs[i].cls == ClsOk {
			r.Count("effect", "ok-no-write")
		} else {
			r.Count("effect", "failed")
		}
		prev = obs[i].after
	}
	r.Count("seq_len", fmt.Sprint(len(c.Ops)))
	r.Count("flavour", c.Flavour)
	r.Count("kpath", c.KPath)
	if _, err := c17Unmarshal([]byte(c.Init)); err != nil {
		r.Count("init", "unparsable")
	} else {
		r.Count("init", "parses")
	}
	if len(c17TrailingComments([]byte(c.Init))) > 0 {
		r.Count("init_trailing_comment", "yes")
	} else {
		r.Count("init_trailing_comment", "no")
	}
	if !strings.HasSuffix(c.Init, "\n") && c.Init != "" {
		r.Count("init_unterminated", "yes")
	}
	if toModel {
		term, ok := c17CaseTerm(c, obs)
		if ok {
			r.AddCase(term, c, nontrivial)
		} else {
			r.Meta.Skipped++
		}
	} else {
		b, _ := json.Marshal(c)
		r.AddEval(string(b), nontrivial)
	}
	c17Laws(r, c, obs)
}

func loadCorpus17() []*c17Case {
	var out []*c17Case
	data, err := os.ReadFile(verifRoot() + "/corpus/C17/cases.json")
	if err != nil {
		return out
	}
	_ = json.Unmarshal(data, &out)
	return out
}

func runC17(r *Run, rng *Rng, tier string) error {
	log.SetOutput(io.Discard)
	defer c17Cleanup()
	if pf := os.Getenv("VERIF_PPROF"); pf != "" {
		if f, err := os.Create(pf); err == nil {
			_ = pprof.StartCPUProfile(f)
			defer pprof.StopCPUProfile()
		}
	}
	nModel, nLaw, maxOps := 250, 150, 6
	if tier == "thorough" {
		nModel, nLaw, maxOps = 1000, 2000, 12
	}
	r.shard = 25
	r.Meta.Rule = "initial files: random typed kustomizations (all fields of the model incl. deprecated bases/imageTags/env/patchesStrategicMerge/patchesJson6902/commonLabels, " +
		"opaque fields, explicit empty maps) laid out with shuffled field order, comment/blank lines before fields, inside lists and at the end, flow-style lists, " +
		"capitalised keys, duplicate keys, unterminated last line, rare unknown field; flavour B adds indented comments and comment-looking lines inside block scalars. " +
		"operation sequences of length <= 6 (quick) / 12 (thorough) over the 27 modelled sub-commands, arguments biased towards what exists. " +
		"non-trivial = some command rewrote the file; distinct by hash of the case term"
	for _, c := range loadCorpus17() {
		c17RunOne(r, c, nil, true)
	}
	for i := 0; i < nModel; i++ {
		c, obs := genCase17(rng.Fork(), maxOps)
		c17RunOne(r, c, obs, true)
	}
	for i := 0; i < nLaw; i++ {
		c, obs := genCase17(rng.Fork(), maxOps)
		c17RunOne(r, c, obs, false)
	}
	return nil
}

func replayC17(p string) (bool, string, error) {
	log.SetOutput(io.Discard)
	data, err := os.ReadFile(p)
	if err != nil {
		return false, "", err
	}
	var rp struct {
		Case c17Case `json:"case"`
	}
	if err := json.Unmarshal(data, &rp); err != nil {
		return false, "", err
	}
	c := &rp.Case
	defer c17Cleanup()
	obs := c17RunSeq(c)
	var b strings.Builder
	fmt.Fprintf(&b, "initial %s:\n%s\n", c.KPath, c.Init)
	for i, o := range c.Ops {
		fmt.Fprintf(&b, "--- step %d: kustomize edit %s -> %s %s\n%s\n", i, strings.Join(o.cli(), " "), obs[i].cls, obs[i].msg, obs[i].after)
	}
	r := NewRun("C17", "replay", 0, "", "")
	c17Laws(r, c, obs)
	violated := false
	for _, v := range r.Meta.Violations {
		violated = true
		fmt.Fprintf(&b, "LAW VIOLATED law=%s class=%s: %s\n", v.Law, v.Class, v.Detail)
	}
	return violated, b.String(), nil
}

func c17SortedNames(m map[string]bool) []string {
	out := make([]string, 0, len(m))
	for k := range m {
		out = append(out, k)
	}
	sort.Strings(out)
	return out
}
