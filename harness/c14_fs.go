package main

import (
	"fmt"
	"strconv"
	"strings"

	"sigs.k8s.io/kustomize/api/filters/fieldspec"
	"sigs.k8s.io/kustomize/api/filters/filtersutil"
	"sigs.k8s.io/kustomize/api/filters/fsslice"
	"sigs.k8s.io/kustomize/api/types"
	"sigs.k8s.io/kustomize/kyaml/resid"
	"sigs.k8s.io/kustomize/kyaml/utils"
	kyaml "sigs.k8s.io/kustomize/kyaml/yaml"
)

// C14, field-spec part: fieldspec.Filter{FieldSpec, SetValue, CreateKind, CreateTag} vs KV.Yaml.FieldSpec.fs_apply.

type fsSpec struct {
	Group      string `json:"group,omitempty"`
	Version    string `json:"version,omitempty"`
	Kind       string `json:"kind,omitempty"`
	Path       string `json:"path"`
	Create     bool   `json:"create,omitempty"`
	CreateKind string `json:"createKind,omitempty"` // "" | KScalar | KMap | KSeq
	CreateTag  string `json:"createTag,omitempty"`
	SetValue   string `json:"setValue"` // scalar | entry | none
}

// setFn builds Filter.SetValue. A fresh value node is made per invocation (filtersutil.SetEntry shares one
// node between all invocations, which makes later style changes visible in earlier targets; the model is
// about fieldspec.Filter, not about that helper). Every node SetValue is invoked on is appended to rec.
func (f *fsSpec) setFn(rec *[]*kyaml.Node) filtersutil.SetFn {
	return func(n *kyaml.RNode) error {
		if rec != nil {
			*rec = append(*rec, n.YNode())
		}
		switch f.SetValue {
		case "scalar":
			return n.PipeE(kyaml.FieldSetter{Value: kyaml.NewScalarRNode("MARK")})
		case "entry":
			return n.PipeE(kyaml.FieldSetter{Name: "mk", Value: kyaml.NewScalarRNode("MV")})
		}
		return nil
	}
}

func (f *fsSpec) filter(rec *[]*kyaml.Node) fieldspec.Filter {
	return fieldspec.Filter{
		FieldSpec: types.FieldSpec{
			Gvk:                resid.Gvk{Group: f.Group, Version: f.Version, Kind: f.Kind},
			Path:               f.Path,
			CreateIfNotPresent: f.Create,
		},
		SetValue:   f.setFn(rec),
		CreateKind: kyaml.Kind(kindOf(f.CreateKind)),
		CreateTag:  f.CreateTag,
	}
}

// sliceFilter: fsslice.Filter over the field specs of the case (the first one carries SetValue/CreateKind/CreateTag)
func sliceFilter14(l []*fsSpec, rec *[]*kyaml.Node) fsslice.Filter {
	fsl := types.FsSlice{}
	for _, f := range l {
		fsl = append(fsl, types.FieldSpec{
			Gvk:                resid.Gvk{Group: f.Group, Version: f.Version, Kind: f.Kind},
			Path:               f.Path,
			CreateIfNotPresent: f.Create,
		})
	}
	return fsslice.Filter{FsSlice: fsl, SetValue: l[0].setFn(rec), CreateKind: kyaml.Kind(kindOf(l[0].CreateKind)), CreateTag: l[0].CreateTag}
}

func coqSliceOp14(l []*fsSpec) string {
	rows := []string{}
	for _, f := range l {
		rows = append(rows, fmt.Sprintf("mkFs %s %s %s %s %s", coqStr(f.Group), coqStr(f.Version), coqStr(f.Kind), coqStr(f.Path), coqBool(f.Create)))
	}
	f := l[0]
	ck := "None"
	if f.CreateKind != "" {
		ck = "(Some " + f.CreateKind + ")"
	}
	return fmt.Sprintf("(OFsSlice [%s] %s %s %s)", strings.Join(rows, "; "), ck, coqTag(f.CreateTag), f.coqSV())
}

func (f *fsSpec) coqSV() string {
	switch f.SetValue {
	case "scalar":
		return `(SVScalar (Scalar TNone SPlain "MARK"))`
	case "entry":
		return `(SVEntry "mk" (Scalar TNone SPlain "MV"))`
	}
	return "SVNone"
}

func (f *fsSpec) coqOp() string {
	ck := "None"
	if f.CreateKind != "" {
		ck = "(Some " + f.CreateKind + ")"
	}
	sv := f.coqSV()
	return fmt.Sprintf("(OFieldSpec (mkFs %s %s %s %s %s) %s %s %s)",
		coqStr(f.Group), coqStr(f.Version), coqStr(f.Kind), coqStr(f.Path), coqBool(f.Create), ck, coqTag(f.CreateTag), sv)
}

// ---------- mirrors of the Coq notions used by the field-spec theorems ----------

// segName / isHint: isSequenceField
func segName(seg string) (string, bool) {
	s := strings.TrimSuffix(seg, "[]")
	return s, s != seg
}

// plainKey14 = "parse_path [nm] = [PKey nm]": PathGetter treats nm as the map key nm itself
func plainKey14(nm string) bool {
	if nm == "" || nm != strings.TrimSpace(nm) {
		return false
	}
	if _, err := strconv.Atoi(nm); err == nil {
		return false
	}
	return nm != "-" && nm != "*" && !kyaml.IsListIndex(nm)
}

// segOk14 = seg_ok of FieldSpecProofs.v
func segOk14(seg string) bool {
	nm, _ := segName(seg)
	return plainKey14(nm)
}

// plainSeg14 = plain_seg of FieldSpecProofs.v (no "[]" hint)
func plainSeg14(seg string) bool {
	_, hint := segName(seg)
	return !hint && plainKey14(seg)
}

func allSegs(segs []string, f func(string) bool) bool {
	for _, s := range segs {
		if !f(s) {
			return false
		}
	}
	return true
}

// denotesRef14 = denotes of FieldSpecProofs.v on the yaml.Node tree: the reference interpretation of a
// slash path (keys; transparent fan-out over sequences; null stops; a scalar on the way is an error).
func denotesRef14(segs []string, n *kyaml.Node) ([]*kyaml.Node, bool) {
	if len(segs) == 0 {
		return []*kyaml.Node{n}, true
	}
	if n.Tag == kyaml.NodeTagNull {
		return nil, true
	}
	switch n.Kind {
	case kyaml.SequenceNode:
		out := []*kyaml.Node{}
		for _, e := range n.Content {
			sub, ok := denotesRef14(segs, e)
			if !ok {
				return nil, false
			}
			out = append(out, sub...)
		}
		return out, true
	case kyaml.MappingNode:
		for i := 0; i+1 < len(n.Content); i += 2 {
			if n.Content[i].Value == segs[0] {
				return denotesRef14(segs[1:], n.Content[i+1])
			}
		}
		return nil, true
	}
	return nil, false
}

// positions of a document: steps are "k:<key>" or "i:<n>"
type jpos []string

func allPositions14(n *kyaml.Node, prefix jpos, out *[]jpos) {
	*out = append(*out, append(jpos{}, prefix...))
	switch n.Kind {
	case kyaml.MappingNode:
		seen := map[string]bool{}
		for i := 0; i+1 < len(n.Content); i += 2 {
			k := n.Content[i].Value
			if seen[k] {
				continue // get_at reads the first of duplicate keys
			}
			seen[k] = true
			allPositions14(n.Content[i+1], append(prefix, "k:"+k), out)
		}
	case kyaml.SequenceNode:
		for i, e := range n.Content {
			allPositions14(e, append(prefix, "i:"+strconv.Itoa(i)), out)
		}
	}
}

// getAt14 = get_at of FieldSpecProofs.v
func getAt14(q jpos, n *kyaml.Node) *kyaml.Node {
	for _, st := range q {
		if n == nil {
			return nil
		}
		if strings.HasPrefix(st, "k:") {
			if n.Kind != kyaml.MappingNode {
				return nil
			}
			var nx *kyaml.Node
			for i := 0; i+1 < len(n.Content); i += 2 {
				if n.Content[i].Value == st[2:] {
					nx = n.Content[i+1]
					break
				}
			}
			n = nx
		} else {
			if n.Kind != kyaml.SequenceNode {
				return nil
			}
			i, _ := strconv.Atoi(st[2:])
			if i >= len(n.Content) {
				return nil
			}
			n = n.Content[i]
		}
	}
	return n
}

// fsDiverges14 = fs_diverges of FieldSpecProofs.v: q leaves the field-spec path at some key
// (index steps are transparent, as sequences are for the field-spec traversal)
func fsDiverges14(segs []string, q jpos) bool {
	for _, st := range q {
		if strings.HasPrefix(st, "i:") {
			continue
		}
		if len(segs) == 0 {
			return false
		}
		nm, _ := segName(segs[0])
		if st[2:] != nm {
			return true
		}
		segs = segs[1:]
	}
	return false
}

func yString(n *kyaml.Node) string {
	if n == nil {
		return "<nil>"
	}
	s, ok := coqNode(n)
	if !ok {
		return "<unrepresentable>"
	}
	return s
}

// lawsFS14: the field-spec laws on the implementation.
func lawsFS14(s sink, c case14, d *docCtx14) (string, bool) {
	orig := d.ref
	report := func(law, detail string) {
		s.Violation(OracleViolation{Law: law, Class: "C14/" + law, Detail: detail, Replay: c})
	}
	segs := utils.PathSplitter(c.FS.Path, "/")
	doc := orig.Copy()
	rec := []*kyaml.Node{}
	cls, msg := protect14(func() error {
		_, e := doc.Pipe(c.FS.filter(&rec))
		return e
	})
	if cls == ClsPanic {
		class := "C14/panic-fieldspec:" + strings.ReplaceAll(c14FirstN(msg, 50), " ", "_")
		s.Violation(OracleViolation{Law: "no_panic", Class: class, Detail: "fieldspec.Filter panics: " + msg, Replay: c})
		return cls, false
	}
	checkWellFormed14(s, c, cls, doc)
	if orig.YNode().Kind == kyaml.SequenceNode {
		return cls, len(rec) > 0 // the GVK / frame / denotes oracles are about mapping objects
	}
	matches := fsMatchesGVK14(c.FS, orig)
	if !matches {
		// fs_apply_gvk_mismatch: the object is returned untouched and SetValue is never invoked
		if cls != ClsOk || docString(doc) != docString(orig) || len(rec) > 0 {
			report("fs_gvk_mismatch", fmt.Sprintf("GVK does not match but class=%s visited=%d after=%s", cls, len(rec), docString(doc)))
		}
		return cls, false
	}
	// C14_fieldspec_frame (fs_filter_frame): all segments seg_ok, outcome Ok => every position of the original
	// document that leaves the path at some key keeps its value
	if cls == ClsOk && allSegs(segs, segOk14) {
		s.Count("law_domain", "fs-frame")
		pos := []jpos{}
		allPositions14(orig.YNode(), nil, &pos)
		for _, q := range pos {
			if !fsDiverges14(segs, q) {
				continue
			}
			before, after := yString(getAt14(q, orig.YNode())), yString(getAt14(q, doc.YNode()))
			if before != after {
				report("fs_frame", fmt.Sprintf("position %v leaves the path %q but changed: %s -> %s", q, c.FS.Path, before, after))
				break
			}
		}
	}
	// C14_fieldspec_denotes: no creation, all segments plain => SetValue is invoked on exactly the denoted nodes
	// (in document order); a scalar on the way is an error
	if !c.FS.Create && allSegs(segs, plainSeg14) && c.FS.SetValue == "none" {
		s.Count("law_domain", "fs-denotes")
		doc2 := orig.Copy()
		rec2 := []*kyaml.Node{}
		cls2, _ := protect14(func() error {
			_, e := doc2.Pipe(c.FS.filter(&rec2))
			return e
		})
		want, ok := denotesRef14(segs, doc2.YNode())
		switch {
		case !ok && cls2 == ClsOk:
			report("fs_denotes", "a scalar lies on the path (reference: error) but the filter succeeded")
		case ok && cls2 != ClsOk:
			report("fs_denotes", "the reference interpretation is defined but the filter failed: class "+cls2)
		case ok:
			same := len(want) == len(rec2)
			for i := 0; same && i < len(want); i++ {
				same = want[i] == rec2[i]
			}
			if !same {
				report("fs_denotes", fmt.Sprintf("SetValue was invoked on %d nodes, the path denotes %d (or in another order)", len(rec2), len(want)))
			}
			if docString(doc2) != docString(orig) {
				report("fs_denotes", "a traversal without creation and with an identity SetValue changed the document: "+docString(orig)+" -> "+docString(doc2))
			}
		}
	}
	return cls, len(rec) > 0
}

// lawsFSSlice14: C14_fsslice_frame on the implementation: every spec has seg_ok segments, outcome Ok =>
// a position that leaves the path of EVERY spec keeps its value.
func lawsFSSlice14(s sink, c case14, d *docCtx14) (string, bool) {
	orig := d.ref
	doc := orig.Copy()
	rec := []*kyaml.Node{}
	cls, msg := protect14(func() error {
		_, e := doc.Pipe(sliceFilter14(c.FSL, &rec))
		return e
	})
	if cls == ClsPanic {
		class := "C14/panic-fieldspec:" + strings.ReplaceAll(c14FirstN(msg, 50), " ", "_")
		s.Violation(OracleViolation{Law: "no_panic", Class: class, Detail: "fsslice.Filter panics: " + msg, Replay: c})
		return cls, false
	}
	checkWellFormed14(s, c, cls, doc)
	if cls != ClsOk || orig.YNode().Kind == kyaml.SequenceNode {
		return cls, false
	}
	paths := [][]string{}
	for _, f := range c.FSL {
		segs := utils.PathSplitter(f.Path, "/")
		if !allSegs(segs, segOk14) {
			return cls, len(rec) > 0
		}
		paths = append(paths, segs)
	}
	s.Count("law_domain", "fsslice-frame")
	pos := []jpos{}
	allPositions14(orig.YNode(), nil, &pos)
	for _, q := range pos {
		all := true
		for _, segs := range paths {
			if !fsDiverges14(segs, q) {
				all = false
				break
			}
		}
		if !all {
			continue
		}
		before, after := yString(getAt14(q, orig.YNode())), yString(getAt14(q, doc.YNode()))
		if before != after {
			s.Violation(OracleViolation{Law: "fsslice_frame", Class: "C14/fsslice_frame",
				Detail: fmt.Sprintf("position %v leaves every path of the slice but changed: %s -> %s", q, before, after), Replay: c})
			break
		}
	}
	return cls, len(rec) > 0
}

func c14FirstN(s string, n int) string {
	if len(s) > n {
		return s[:n]
	}
	return s
}

// fsMatchesGVK14: reference reading of isMatchGVK (kind / group / version of a mapping object)
func fsMatchesGVK14(f *fsSpec, obj *kyaml.RNode) bool {
	kind, av := "", ""
	y := obj.YNode()
	if y.Kind == kyaml.MappingNode {
		gotK, gotA := false, false
		for i := 0; i+1 < len(y.Content); i += 2 {
			if y.Content[i].Value == "kind" && !gotK {
				kind, gotK = y.Content[i+1].Value, true
			}
			if y.Content[i].Value == "apiVersion" && !gotA {
				av, gotA = y.Content[i+1].Value, true
			}
		}
	}
	group, version := "", av
	if i := strings.Index(av, "/"); i >= 0 {
		group, version = av[:i], av[i+1:]
	}
	return (f.Kind == "" || f.Kind == kind) && (f.Group == "" || f.Group == group) && (f.Version == "" || f.Version == version)
}

// ---------- generators ----------

var fsKeys = []string{"a", "b", "c", "name", "x/y", "x/y/z", "e.com/t/o"}
var fsScalars = []string{"x", "y", "1", "null", "~", `""`, "true"}

func genFSNode14(g *Rng, depth int) *gnode {
	k := g.Intn(12)
	if depth <= 0 {
		k = g.Intn(4)
	}
	switch {
	case k < 3:
		return &gnode{kind: 0, text: g.Pick(fsScalars)}
	case k < 4:
		return &gnode{kind: 0, text: "null"}
	case k < 9:
		n := g.Intn(4)
		m := &gnode{kind: 1}
		used := map[string]bool{}
		for i := 0; i < n; i++ {
			key := g.Pick(fsKeys)
			if used[key] && !g.Chance(4) {
				continue
			}
			used[key] = true
			m.keys = append(m.keys, key)
			m.vals = append(m.vals, genFSNode14(g, depth-1))
		}
		return m
	default:
		n := g.Intn(4)
		sq := &gnode{kind: 2}
		for i := 0; i < n; i++ {
			sq.vals = append(sq.vals, genFSNode14(g, depth-1))
		}
		return sq
	}
}

var fsApiVersions = []string{"apps/v1", "v1", "apps/v2", "g/v1/x", ""}
var fsKinds = []string{"Deployment", "Service", ""}

// genFSPathGuided14 follows the object (keys of mappings; sequences are transparent) most of the time.
func genFSPathGuided14(g *Rng, root *gnode) string {
	n := 1 + g.Intn(4)
	segs := []string{}
	cur := []*gnode{root}
	for i := 0; i < n; i++ {
		// flatten sequences: the traversal fans out over them
		flat := []*gnode{}
		var fl func(x *gnode, d int)
		fl = func(x *gnode, d int) {
			if x.kind == 2 && d < 4 {
				for _, e := range x.vals {
					fl(e, d+1)
				}
			} else {
				flat = append(flat, x)
			}
		}
		for _, x := range cur {
			fl(x, 0)
		}
		keys := []string{}
		for _, x := range flat {
			if x.kind == 1 {
				keys = append(keys, x.keys...)
			}
		}
		var seg string
		next := []*gnode{}
		if len(keys) > 0 && !g.Chance(25) {
			k := keys[g.Intn(len(keys))]
			seg = strings.ReplaceAll(k, "/", `\/`)
			for _, x := range flat {
				if x.kind == 1 {
					for j, kk := range x.keys {
						if kk == k {
							next = append(next, x.vals[j])
							break
						}
					}
				}
			}
			if g.Chance(15) {
				seg += "[]"
			}
		} else if g.Chance(10) {
			seg = g.Pick(fsOddSegs)
		} else {
			seg = g.Pick(fsSegs)
		}
		segs = append(segs, seg)
		cur = next
	}
	p := strings.Join(segs, "/")
	if g.Chance(10) {
		p = "/" + p
	}
	return p
}

func genFSObjNode14(g *Rng) *gnode {
	m := &gnode{kind: 1}
	if g.Chance(80) {
		m.keys = append(m.keys, "apiVersion")
		m.vals = append(m.vals, &gnode{kind: 0, text: g.Pick(fsApiVersions[:4])})
	}
	if g.Chance(80) {
		m.keys = append(m.keys, "kind")
		m.vals = append(m.vals, &gnode{kind: 0, text: g.Pick(fsKinds[:2])})
	}
	n := 1 + g.Intn(3)
	used := map[string]bool{}
	for i := 0; i < n; i++ {
		key := g.Pick(fsKeys)
		if used[key] {
			continue
		}
		used[key] = true
		m.keys = append(m.keys, key)
		m.vals = append(m.vals, genFSNode14(g, 3))
	}
	return m
}

var fsSegs = []string{"a", "b", "c", "name", "a", "b", `x\/y`, `x\/y\/z`, `e.com\/t\/o`, "a[]", "b[]", "c[]"}
var fsOddSegs = []string{"0", "1", "-", "*", "[name=x]", "", " a ", "a[][]", "[]", `a\`, "+1", "[=x]", "a ", "-1"}

func genFSPath14(g *Rng) string {
	n := 1 + g.Intn(4)
	segs := []string{}
	for i := 0; i < n; i++ {
		if g.Chance(7) {
			segs = append(segs, g.Pick(fsOddSegs))
		} else {
			segs = append(segs, g.Pick(fsSegs))
		}
	}
	p := strings.Join(segs, "/")
	if g.Chance(12) {
		p = "/" + p
	}
	if g.Chance(3) {
		p += "/"
	}
	return p
}

func genFSCase14(g *Rng) case14 {
	root := genFSObjNode14(g)
	doc := "{}\n"
	if len(root.keys) > 0 {
		doc = root.yaml()
	}
	if g.Chance(6) {
		// a sequence as the object: isMatchGVK reads its Content pairwise (and runs off an odd one)
		sq := &gnode{kind: 2}
		for n := g.Intn(5); n > 0; n-- {
			if g.Chance(45) {
				sq.vals = append(sq.vals, &gnode{kind: 0, text: g.Pick([]string{"kind", "apiVersion", "Deployment", "apps/v1", "a"})})
			} else {
				sq.vals = append(sq.vals, genFSNode14(g, 2))
			}
		}
		root = sq
		doc = sq.yaml()
	}
	f := &fsSpec{Path: genFSPath14(g), Create: g.Chance(50)}
	if g.Chance(65) {
		f.Path = genFSPathGuided14(g, root)
	}
	if g.Chance(15) {
		f.Kind = g.Pick(fsKinds[:2])
	}
	if g.Chance(12) {
		f.Group = g.Pick([]string{"apps", "g", "zz"})
	}
	if g.Chance(12) {
		f.Version = g.Pick([]string{"v1", "v2", "v1/x"})
	}
	f.CreateKind = g.Pick([]string{"", "KScalar", "KMap", "KMap", "KSeq"})
	f.CreateTag = g.Pick([]string{"", "", "!!str", "!!map", "!!seq", "!!int"})
	f.SetValue = g.Pick([]string{"scalar", "entry", "none"})
	return case14{Op: "fieldspec", Doc: doc, Path: []string{}, FS: f}
}

// genFSSliceCase14: two or three field specs applied in sequence by fsslice.Filter
func genFSSliceCase14(g *Rng) case14 {
	c := genFSCase14(g)
	l := []*fsSpec{c.FS}
	root := genFSObjNode14(g) // paths of the further specs follow another random object of the same shape family
	for k := 1 + g.Intn(2); k > 0; k-- {
		f := &fsSpec{Path: genFSPath14(g), Create: g.Chance(50)}
		if g.Chance(50) {
			f.Path = genFSPathGuided14(g, root)
		}
		if g.Chance(10) {
			f.Kind = g.Pick(fsKinds[:2])
		}
		l = append(l, f)
	}
	return case14{Op: "fsslice", Doc: c.Doc, Path: []string{}, FS: c.FS, FSL: l}
}

// count records the input distribution of a field-spec case.
func (f *fsSpec) count(s sink, c case14, cls string, after *kyaml.RNode) {
	segs := utils.PathSplitter(f.Path, "/")
	s.Count("fs_segments", fmt.Sprint(len(segs)))
	s.Count("fs_create", fmt.Sprintf("%v/%s", f.Create, f.CreateKind))
	s.Count("fs_setvalue", f.SetValue)
	switch {
	case allSegs(segs, plainSeg14):
		s.Count("fs_path_shape", "plain")
	case allSegs(segs, segOk14):
		s.Count("fs_path_shape", "with-[]-hint")
	default:
		s.Count("fs_path_shape", "malformed-segment")
	}
	if orig, err := kyaml.Parse(c.Doc); err == nil {
		s.Count("fs_gvk_match", fmt.Sprint(fsMatchesGVK14(f, orig)))
		if cls == ClsOk {
			if docString(orig) != docString(after) {
				s.Count("fs_effect", "changed")
			} else {
				s.Count("fs_effect", "unchanged")
			}
		}
	}
}
