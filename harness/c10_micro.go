package main

// C10: the property's laws evaluated on the MICRO cases (the same inputs the model sees), with the
// independent matcher of c10_oracle.go as the expectation. Used during the run (violations are
// reported like the build-level ones) and by replay: a micro case on which model and
// implementation disagree is judged against the property itself.

import (
	"fmt"
	"regexp"
	"strconv"
	"strings"

	kyaml "sigs.k8s.io/kustomize/kyaml/yaml"
	"sigs.k8s.io/yaml"
)

type c10Verdict struct {
	Violated bool
	Class    string
	Law      string
	Detail   string
}

var c10WellFormedImage = regexp.MustCompile(`^(?:[a-z0-9.-]+(?::[0-9]+)?/)?[a-z0-9._/-]+(?::[A-Za-z0-9_.{}-]+)?(?:@sha256:[A-Za-z0-9_.{}-]+)?$`)
var c10RepoName = regexp.MustCompile(`^(?:[a-z0-9.-]+(?::[0-9]+)?/)?[a-z0-9._/-]+$`)

func c10HasMetaChar(s string) bool { return strings.ContainsAny(s, `\.+*?()|[]{}^$`) }

// entry names the image oracle covers: plain repository names, or names with regexp metacharacters
// (matched literally since /repo d3b6ede: they equal no well-formed repository name)
func c10EntryInDomain(name string) bool {
	return name != "" && (c10RepoName.MatchString(name) || c10HasMetaChar(name))
}

// every containers / initContainers value anywhere is a list of mappings with a well-formed image or none
func c10ImagesDomain(v interface{}) bool {
	switch x := v.(type) {
	case map[string]interface{}:
		for k, c := range x {
			if k == "containers" || k == "initContainers" {
				l, ok := c.([]interface{})
				if !ok {
					return false
				}
				for _, e := range l {
					m, ok := e.(map[string]interface{})
					if !ok {
						return false
					}
					if img, has := m["image"]; has {
						s, ok := img.(string)
						if !ok || strings.HasPrefix(s, "/") || !c10WellFormedImage.MatchString(s) {
							return false
						}
					}
				}
			}
			if !c10ImagesDomain(c) {
				return false
			}
		}
	case []interface{}:
		for _, c := range x {
			if !c10ImagesDomain(c) {
				return false
			}
		}
	}
	return true
}

func c10ObjsOfTexts(texts []string) ([]c10Obj, bool) {
	out := []c10Obj{}
	for _, t := range texts {
		var o c10Obj
		if err := yaml.Unmarshal([]byte(t), &o); err != nil || o == nil {
			return nil, false
		}
		out = append(out, o)
	}
	return out, true
}

func c10TextsOfNodes(ns []*kyaml.RNode) ([]string, bool) {
	out := []string{}
	for _, n := range ns {
		s, err := n.String()
		if err != nil {
			return nil, false
		}
		out = append(out, s)
	}
	return out, true
}

func c10CompareObjs(want, got []c10Obj) []c10Diff {
	diffs := []c10Diff{}
	if len(want) != len(got) {
		return []c10Diff{{Res: "*", Field: "#resources", Want: strconv.Itoa(len(want)), Got: strconv.Itoa(len(got))}}
	}
	for i := range want {
		fw, fg := map[string]string{}, map[string]string{}
		c10Flatten("", c10Deep(want[i]), fw)
		c10Flatten("", got[i], fg)
		keys := map[string]bool{}
		for f := range fw {
			keys[f] = true
		}
		for f := range fg {
			keys[f] = true
		}
		for _, f := range sortedKeys(keys) {
			w, okw := fw[f]
			g, okg := fg[f]
			if !okw {
				w = "<absent>"
			}
			if !okg {
				g = "<absent>"
			}
			if w != g {
				diffs = append(diffs, c10Diff{Res: fmt.Sprintf("#%d %s", i, c10Key(want[i])), Field: f, Want: w, Got: g})
			}
		}
	}
	return diffs
}

func c10DiffText(diffs []c10Diff) string {
	parts := []string{}
	for i, d := range diffs {
		if i >= 6 {
			break
		}
		parts = append(parts, fmt.Sprintf("%s %s: predicted %q, observed %q", d.Res, d.Field, d.Want, d.Got))
	}
	return strings.Join(parts, "; ")
}

// c10JudgeObjs: directives sp applied to the objects of beforeTexts gave (cls, afterTexts).
// Expectation: the independent matcher; a deviation that one of the listed defects (emulated)
// reproduces exactly gets that finding's class.
func c10JudgeObjs(sp c10Spec, beforeTexts []string, cls string, afterTexts []string, what string) c10Verdict {
	predict := func(mode c10Mode) (c10Pred, bool) {
		p := c10Pred{}
		objs, ok := c10ObjsOfTexts(beforeTexts)
		if !ok {
			return p, false
		}
		p.objs = objs
		if p.views, ok = c10Views(objs); !ok {
			return p, false
		}
		sp.predictOn(&p, mode)
		return p, !p.unknown
	}
	hangShape := c10ExpectHang(c10Case{Kind: "repl", Repls: sp.Repls})
	switch cls {
	case ClsPanic:
		if _, ok := predict(c10Mode{}); !ok {
			return c10Verdict{} // e.g. malformed previous-id annotations: C12's business
		}
		return c10Verdict{true, "C10/" + what + "-panics", "terminates_without_panic", what + " panicked"}
	case ClsDiverge:
		_ = hangShape
		return c10Verdict{true, "C10/" + what + "-does-not-return", "terminates_without_panic", what + " did not return"}
	}
	p, ok := predict(c10Mode{})
	if !ok {
		return c10Verdict{}
	}
	var after []c10Obj
	if cls == ClsOk {
		if after, ok = c10ObjsOfTexts(afterTexts); !ok {
			return c10Verdict{}
		}
	}
	agrees := func(p c10Pred) bool {
		if cls == ClsErr {
			return p.err
		}
		return !p.err && len(c10CompareObjs(p.objs, after)) == 0
	}
	if agrees(p) {
		return c10Verdict{}
	}
	detail := ""
	switch {
	case cls == ClsErr:
		detail = what + " failed although the directive is satisfiable"
	case p.err:
		detail = what + " succeeded although the directive selects nothing / an impossible target"
	default:
		detail = c10DiffText(c10CompareObjs(p.objs, after))
	}
	undecided := false
	for _, m := range []c10Mode{{ImgTwice: true}, {ListKeyRegex: true}} {
		if m.ImgTwice && len(sp.Images) == 0 {
			continue
		}
		if (m.ListKeyRegex || m.SourceAlias) && len(sp.Repls) == 0 {
			continue
		}
		pm, ok := predict(m)
		if !ok {
			undecided = true // a listed defect may explain the deviation but its emulation is outside the oracle's domain
			continue
		}
		if agrees(pm) {
			return c10Verdict{true, m.class(), "modified_set_exact", detail}
		}
	}
	if undecided {
		return c10Verdict{}
	}
	return c10Verdict{true, "C10/" + what + "-modified-set-differs", "modified_set_exact", detail}
}

// ---- per case kind ----

func c10LawSelect(c c10Case, cls string, got []int) c10Verdict {
	objs, ok := c10ObjsOfTexts(c.Docs)
	if !ok {
		return c10Verdict{}
	}
	views, ok := c10Views(objs)
	if !ok {
		return c10Verdict{}
	}
	s := *c.Sel
	for _, pat := range []string{s.Group, s.Version, s.Kind, s.Name, s.Namespace} {
		if _, ok := c10FullMatch(pat, ""); !ok {
			if cls == ClsOk {
				return c10Verdict{true, "C10/select-accepts-bad-pattern", "select_exact", "Select succeeded with the non-compiling pattern " + pat}
			}
			return c10Verdict{}
		}
	}
	want := []int{}
	for i, v := range views {
		keep, ok := c10SelectKeeps(v, s)
		if !ok {
			return c10Verdict{}
		}
		if keep {
			want = append(want, i)
		}
	}
	if cls != ClsOk {
		return c10Verdict{true, "C10/select-fails", "select_exact", "Select failed (" + cls + ") on a well-formed selector"}
	}
	if fmt.Sprint(want) != fmt.Sprint(got) {
		return c10Verdict{true, "C10/select-differs", "select_exact",
			fmt.Sprintf("selector %+v: resources fully matching %v, Select returned %v", s, want, got)}
	}
	return c10Verdict{}
}

func c10LawImageVal(c c10Case, cls string, after string) c10Verdict {
	var o map[string]interface{}
	if err := yaml.Unmarshal([]byte(c.Doc), &o); err != nil {
		return c10Verdict{}
	}
	if _, ok := o["image"].(string); !ok || !c10EntryInDomain(c.Image.Name) {
		return c10Verdict{}
	}
	wrap := func(doc string) []string {
		var x map[string]interface{}
		if yaml.Unmarshal([]byte(doc), &x) != nil {
			return nil
		}
		b, _ := yaml.Marshal(map[string]interface{}{"kind": "X", "metadata": map[string]interface{}{"name": "n"},
			"status": map[string]interface{}{"containers": []interface{}{x}}})
		return []string{string(b)}
	}
	before := wrap(c.Doc)
	if bo, ok := c10ObjsOfTexts(before); !ok || !c10ImagesDomain(bo[0]) {
		return c10Verdict{}
	}
	var aft []string
	if cls == ClsOk {
		aft = wrap(after)
	}
	return c10JudgeObjs(c10Spec{Images: []c10Image{*c.Image}}, before, cls, aft, "image-update")
}

func c10LawImageTr(c c10Case, cls string, after []string) c10Verdict {
	objs, ok := c10ObjsOfTexts(c.Docs)
	if !ok || !c10EntryInDomain(c.Image.Name) {
		return c10Verdict{}
	}
	for _, o := range objs {
		if !c10ImagesDomain(o) {
			return c10Verdict{}
		}
	}
	return c10JudgeObjs(c10Spec{Images: []c10Image{*c.Image}}, c.Docs, cls, after, "image-transformer")
}

func c10LawReplica(c c10Case, cls string, after []string) c10Verdict {
	return c10JudgeObjs(c10Spec{Replicas: []c10ReplicaEntry{{Name: c.RName, Count: c.RCount}}}, c.Docs, cls, after, "replica-transformer")
}

func c10LawRepl(c c10Case, cls string, after []string) c10Verdict {
	return c10JudgeObjs(c10Spec{Repls: c.Repls}, c.Docs, cls, after, "replacement")
}

// c10LawReplEncodable: what a replacement writes is a well-formed value — the documents the filter returns
// can be encoded the way ResMap.AsYaml encodes them. (The former listed shape — a scalar target keeping its
// !!null / !!int tag under a text of another type, C10/replacement-keeps-target-tag-not-encodable — is
// repaired: setFieldValue makes such a node a string; a reappearance is an unlisted violation.)
var c10KeptTagRe = regexp.MustCompile("cannot decode !!\\w+ `.*` as a !!(null|int|bool|float)")

func c10LawReplEncodable(c c10Case, noEnc string) c10Verdict {
	if noEnc == "" {
		return c10Verdict{}
	}
	return c10Verdict{true, "C10/replacement-output-not-encodable", "written_value_well_formed", "the replacement succeeded but its result cannot be encoded: " + noEnc}
}

func c10LawSplit(c c10Case, got []string) c10Verdict {
	want, ok := c10SplitPath(c.PathS)
	if !ok || strings.Contains(c.PathS, "[[") || strings.Contains(c.PathS, "]]") || strings.Contains(c.PathS, "[]") {
		return c10Verdict{}
	}
	for _, p := range strings.Split(c.PathS, ".") { // the independent splitter covers balanced, non-nested brackets only
		if strings.Count(p, "[") > 1 || strings.Count(p, "]") > 1 || (strings.Contains(p, "[") && !strings.HasPrefix(p, "[")) ||
			(strings.Contains(p, "]") && !strings.HasSuffix(p, "]")) {
			return c10Verdict{}
		}
	}
	if len(c.PathS) > 0 && c.PathS[0] == '.' {
		return c10Verdict{}
	}
	depth := 0
	for i := 0; i < len(c.PathS); i++ {
		switch c.PathS[i] {
		case '[':
			depth++
		case ']':
			depth--
		}
		if depth < 0 || depth > 1 {
			return c10Verdict{} // unbalanced / nested brackets: outside the independent splitter
		}
	}
	for _, w := range want {
		_ = w
	}
	for _, p := range strings.Split(c.PathS, ".") {
		// a bracketed piece without '=' and without an inner delimiter keeps its brackets in the
		// implementation ("a.[b]" -> "[b]", although "a.[b.c]" -> "b.c"): not a selection matter, no verdict
		if strings.HasPrefix(p, "[") && strings.HasSuffix(p, "]") && !strings.Contains(p, "=") {
			return c10Verdict{}
		}
	}
	if fmt.Sprintf("%q", want) != fmt.Sprintf("%q", got) {
		return c10Verdict{true, "C10/path-split-differs", "path_split", fmt.Sprintf("path %q: expected parts %q, SmarterPathSplitter gave %q", c.PathS, want, got)}
	}
	return c10Verdict{}
}

func c10Report(run *Run, v c10Verdict, c c10Case) {
	if run == nil || !v.Violated {
		return
	}
	run.Violation(OracleViolation{Law: v.Law, Class: v.Class, Detail: v.Detail, Replay: c})
}
