package main

import (
	"fmt"
	"path/filepath"
	"sort"
	"strings"
)

// C18 generator: local trees with 1–3 kustomization roots inside a scope, files referenced from
// every localizable field the model covers, path spellings that need cleaning, and (with small
// probabilities) invalid references / arguments that exercise the error paths.

type tree18 struct {
	Files  map[string]string `json:"files"` // absolute path -> content
	Dirs   []string          `json:"dirs"`  // additional (possibly empty) directories
	Target string            `json:"target"`
	Scope  string            `json:"scope"`
	NewDir string            `json:"newdir"`
	Tags   []string          `json:"tags"` // what the generator injected (distribution only)
	// ExpectOk: the tree is valid by construction (every reference local, inside the scope, outside
	// newDir; valid arguments): the fault-free localize must succeed.
	ExpectOk bool `json:"expect_ok,omitempty"`
}

var invalidTags18 = map[string]bool{"missing-file": true, "file-outside-root": true, "root-outside-scope": true, "cycle": true,
	"file-into-newdir": true, "root-into-newdir": true, "root-into-missing-newdir": true, "absolute-root": true,
	"bad-file-source": true, "unparsable-kustomization": true, "dir-as-file": true, "multiple-kustomization-files": true,
	"no-kustomization-file": true, "newdir-exists": true, "newdir-illegal": true, "target-missing": true,
	"target-is-file": true, "scope-not-containing-target": true, "scope-missing": true, "helm:absolute-home": true,
	"helm:home-outside-scope": true, "scope-excludes-sibling-root": true}

func (t *tree18) tag(s string) { t.Tags = append(t.Tags, s) }

// one kustomization root under construction
type root18 struct {
	dir   string // absolute, clean
	tagN  string // short unique tag used in resource names
	kind  string // "Kustomization" | "Component"
	lines []string
	t     *tree18
	rng   *Rng
	hasDep bool
	fileN  int
	fields map[string][]string // list-valued path fields, emitted last
	helm   bool                // give this root helm fields and a chart home
	resOnly bool               // only `resources` (files and roots) and non-path directives
	adv    bool                // adversarial variants allowed
	scope  string              // the scope directory of the tree
}

func (r *root18) add(rel, content string) string {
	r.t.Files[filepath.Join(r.dir, rel)] = content
	return rel
}

// spell returns a spelling of the root-relative path rel as it will appear in the kustomization.
func (r *root18) spell(rel string) string {
	switch x := r.rng.Intn(100); {
	case x < 62:
		return rel
	case x < 72:
		return "./" + rel
	case x < 82:
		return "zz/../" + rel
	case x < 88:
		d, f := filepath.Split(rel)
		if d != "" {
			return d + "/" + f // double slash
		}
		return ".//" + rel
	case x < 93:
		return filepath.Join(r.dir, rel) // absolute path inside the root
	default:
		// leave the root and come back
		return "../" + filepath.Base(r.dir) + "/" + rel
	}
}

func (r *root18) fname(stem, ext string) string {
	r.fileN++
	name := fmt.Sprintf("%s%d%s", stem, r.fileN, ext)
	if r.rng.Chance(25) {
		return "d" + r.rng.Pick([]string{"1", "2"}) + "/" + name
	}
	return name
}

func cmDoc(name string) string {
	return "apiVersion: v1\nkind: ConfigMap\nmetadata:\n  name: " + name + "\ndata:\n  k: v\n"
}

func depDoc(name string) string {
	return "apiVersion: apps/v1\nkind: Deployment\nmetadata:\n  name: " + name + "\nspec:\n  replicas: 1\n  selector:\n    matchLabels:\n      app: x\n  template:\n    metadata:\n      labels:\n        app: x\n    spec:\n      containers:\n      - name: c\n        image: nginx\n"
}

func smpDoc(name string, replicas int) string {
	return fmt.Sprintf("apiVersion: apps/v1\nkind: Deployment\nmetadata:\n  name: %s\nspec:\n  replicas: %d\n", name, replicas)
}

const json6902Doc = "- op: replace\n  path: /spec/replicas\n  value: 7\n"

const openapiDoc = `{"definitions":{"v1alpha1.MyKind":{"properties":{"apiVersion":{"type":"string"},"kind":{"type":"string"},"metadata":{"type":"object"}},"type":"object","x-kubernetes-group-version-kind":[{"group":"example.com","kind":"MyKind","version":"v1alpha1"}]}}}
`

func (r *root18) depName() string { return r.tagN + "-dep" }

func (r *root18) ensureDep() {
	if r.hasDep {
		return
	}
	r.hasDep = true
	f := r.add(r.fname("dep", ".yaml"), depDoc(r.depName()))
	r.fields["resources"] = append(r.fields["resources"], r.spell(f))
}

func yamlList(key string, items []string) []string {
	if len(items) == 0 {
		return nil
	}
	out := []string{key + ":"}
	for _, it := range items {
		if strings.Contains(it, "\n") {
			out = append(out, "- |")
			for _, l := range strings.Split(strings.TrimRight(it, "\n"), "\n") {
				out = append(out, "  "+l)
			}
		} else {
			out = append(out, "- "+c18yq(it))
		}
	}
	return out
}

// c18yq quotes a scalar when YAML would not read it back as the same string.
func c18yq(s string) string {
	if s == "" || strings.ContainsAny(s, ":#{}[]&*!|>'\"%@`, ") || s == "." || s == ".." || s == "~" ||
		s == "null" || s == "true" || s == "false" || strings.HasPrefix(s, "-") || strings.HasPrefix(s, "?") {
		return `"` + strings.ReplaceAll(strings.ReplaceAll(s, `\`, `\\`), `"`, `\"`) + `"`
	}
	return s
}

// fill populates the root with random localizable fields. subRoots are (spelling, asField) pairs
// already decided by the caller.
func (r *root18) fill(rootRefs map[string][]string) {
	rng := r.rng
	for k, v := range rootRefs {
		r.fields[k] = append(r.fields[k], v...)
	}
	if r.helm {
		defer r.fillHelm()
	}
	if r.kind == "Component" {
		r.lines = append(r.lines, "apiVersion: kustomize.config.k8s.io/v1alpha1", "kind: Component")
	} else if rng.Chance(70) {
		r.lines = append(r.lines, "apiVersion: kustomize.config.k8s.io/v1beta1", "kind: Kustomization")
	}
	// non-path fields that must survive unchanged
	if rng.Chance(30) {
		r.lines = append(r.lines, "namePrefix: "+r.tagN+"-")
	}
	if rng.Chance(20) {
		r.lines = append(r.lines, "commonAnnotations:", "  note: "+r.tagN)
	}
	if rng.Chance(75) || len(r.fields["resources"]) == 0 {
		n := 1 + rng.Intn(3)
		for i := 0; i < n; i++ {
			f := r.add(r.fname("cm", ".yaml"), cmDoc(fmt.Sprintf("%s-cm%d", r.tagN, i)))
			r.fields["resources"] = append(r.fields["resources"], r.spell(f))
		}
	}
	if r.resOnly {
		if rng.Chance(50) {
			r.lines = append(r.lines, "configMapGenerator:", "- name: "+r.tagN+"-lit", "  literals:", "  - a=b")
		}
		return
	}
	if rng.Chance(8) {
		f := r.add(r.fname("schema", ".json"), openapiDoc)
		r.lines = append(r.lines, "openapi:", "  path: "+c18yq(r.spell(f)))
	}
	if rng.Chance(18) {
		f := r.add(r.fname("cfg", ".yaml"), "namePrefix:\n- path: metadata/name\n  kind: ConfigMap\n")
		items := []string{r.spell(f)}
		if rng.Chance(30) {
			f2 := r.add(r.fname("cfg", ".yaml"), "commonLabels:\n- path: spec/extra/labels\n  create: true\n  kind: Deployment\n")
			items = append(items, r.spell(f2))
		}
		r.fields["configurations"] = append(r.fields["configurations"], items...)
	}
	if rng.Chance(12) {
		f := r.add(r.fname("crd", ".json"), openapiDoc)
		r.fields["crds"] = append(r.fields["crds"], r.spell(f))
	}
	for _, gk := range []string{"configMapGenerator", "secretGenerator"} {
		p := 40
		if gk == "secretGenerator" {
			p = 15
		}
		if !rng.Chance(p) {
			continue
		}
		r.lines = append(r.lines, gk+":")
		n := 1 + rng.Intn(2)
		for i := 0; i < n; i++ {
			r.lines = append(r.lines, fmt.Sprintf("- name: %s-%s%d", r.tagN, strings.ToLower(gk[:3]), i))
			if rng.Chance(70) {
				var fl []string
				m := 1 + rng.Intn(2)
				for j := 0; j < m; j++ {
					f := r.add(r.fname("data", ".txt"), fmt.Sprintf("payload %s %d %d\n", r.tagN, i, j))
					if rng.Chance(50) {
						fl = append(fl, fmt.Sprintf("key%d=%s", j, r.spell(f)))
					} else {
						fl = append(fl, r.spell(f))
					}
				}
				r.lines = append(r.lines, "  files:")
				for _, x := range fl {
					r.lines = append(r.lines, "  - "+c18yq(x))
				}
			}
			if rng.Chance(45) {
				f := r.add(r.fname("vars", ".env"), fmt.Sprintf("E%d=%s\n", i, r.tagN))
				r.lines = append(r.lines, "  envs:", "  - "+c18yq(r.spell(f)))
			}
			if rng.Chance(12) {
				f := r.add(r.fname("old", ".env"), fmt.Sprintf("O%d=%s\n", i, r.tagN))
				r.lines = append(r.lines, "  env: "+c18yq(r.spell(f)))
			}
			if rng.Chance(40) {
				r.lines = append(r.lines, "  literals:", "  - lit=eral")
			}
		}
	}
	if rng.Chance(40) {
		r.ensureDep()
		r.lines = append(r.lines, "patches:")
		if rng.Chance(60) {
			f := r.add(r.fname("patch", ".yaml"), smpDoc(r.depName(), 2))
			r.lines = append(r.lines, "- path: "+c18yq(r.spell(f)))
		}
		if rng.Chance(50) {
			f := r.add(r.fname("jp", ".yaml"), json6902Doc)
			r.lines = append(r.lines, "- path: "+c18yq(r.spell(f)), "  target:", "    kind: Deployment", "    name: "+r.depName())
		}
		if rng.Chance(25) {
			// inline patch: Path is empty
			r.lines = append(r.lines, "- patch: |-", "    - op: replace", "      path: /spec/replicas", "      value: 5", "  target:", "    kind: Deployment", "    name: "+r.depName())
		}
		if r.lines[len(r.lines)-1] == "patches:" {
			r.lines = r.lines[:len(r.lines)-1]
		}
	}
	if rng.Chance(10) {
		r.ensureDep()
		f := r.add(r.fname("j6902", ".yaml"), json6902Doc)
		r.lines = append(r.lines, "patchesJson6902:", "- path: "+c18yq(r.spell(f)), "  target:", "    group: apps", "    version: v1", "    kind: Deployment", "    name: "+r.depName())
	}
	if rng.Chance(25) {
		r.ensureDep()
		var items []string
		if rng.Chance(75) {
			f := r.add(r.fname("psm", ".yaml"), smpDoc(r.depName(), 3))
			items = append(items, r.spell(f))
		}
		if rng.Chance(40) {
			items = append(items, smpDoc(r.depName(), 4))
		}
		r.fields["patchesStrategicMerge"] = append(r.fields["patchesStrategicMerge"], items...)
	}
	if rng.Chance(15) {
		r.ensureDep()
		f := r.add(r.fname("repl", ".yaml"),
			"source:\n  kind: Deployment\n  name: "+r.depName()+"\n  fieldPath: metadata.name\ntargets:\n- select:\n    kind: Deployment\n    name: "+r.depName()+"\n  fieldPaths:\n  - spec.template.metadata.labels.app\n")
		r.lines = append(r.lines, "replacements:", "- path: "+c18yq(r.spell(f)))
	}
	if rng.Chance(15) {
		// generator plugin file with file references of its own
		d := r.add(r.fname("gdata", ".txt"), "g "+r.tagN+"\n")
		body := "apiVersion: builtin\nkind: ConfigMapGenerator\nmetadata:\n  name: " + r.tagN + "-plug\nfiles:\n- " + c18yq("gk="+r.spell(d)) + "\n"
		if rng.Chance(50) {
			e := r.add(r.fname("g", ".env"), "G="+r.tagN+"\n")
			body += "envs:\n- " + c18yq(r.spell(e)) + "\n"
		}
		f := r.add(r.fname("gen", ".yaml"), body)
		r.fields["generators"] = append(r.fields["generators"], r.spell(f))
	}
	if rng.Chance(18) {
		r.ensureDep()
		var items []string
		n := 1 + rng.Intn(2)
		for i := 0; i < n; i++ {
			var body string
			switch rng.Intn(4) {
			case 0:
				p := r.add(r.fname("tpatch", ".yaml"), smpDoc(r.depName(), 6))
				body = "apiVersion: builtin\nkind: PatchTransformer\nmetadata:\n  name: " + r.tagN + fmt.Sprintf("-pt%d", i) + "\npath: " + c18yq(r.spell(p)) + "\n"
			case 1:
				p := r.add(r.fname("tpsm", ".yaml"), smpDoc(r.depName(), 8))
				body = "apiVersion: builtin\nkind: PatchStrategicMergeTransformer\nmetadata:\n  name: " + r.tagN + fmt.Sprintf("-psm%d", i) + "\npaths:\n- " + c18yq(r.spell(p)) + "\n"
				if rng.Chance(40) {
					// an inline patch among the paths
					body += "- |-\n  apiVersion: apps/v1\n  kind: Deployment\n  metadata:\n    name: " + r.depName() + "\n  spec:\n    replicas: 9\n"
				}
			case 2:
				p := r.add(r.fname("tj", ".yaml"), json6902Doc)
				body = "apiVersion: builtin\nkind: PatchJson6902Transformer\nmetadata:\n  name: " + r.tagN + fmt.Sprintf("-pj%d", i) + "\ntarget:\n  group: apps\n  version: v1\n  kind: Deployment\n  name: " + r.depName() + "\npath: " + c18yq(r.spell(p)) + "\n"
			default:
				p := r.add(r.fname("trepl", ".yaml"),
					"source:\n  kind: Deployment\n  name: "+r.depName()+"\n  fieldPath: metadata.name\ntargets:\n- select:\n    kind: Deployment\n    name: "+r.depName()+"\n  fieldPaths:\n  - spec.template.metadata.labels.app\n")
				body = "apiVersion: builtin\nkind: ReplacementTransformer\nmetadata:\n  name: " + r.tagN + fmt.Sprintf("-rt%d", i) + "\nreplacements:\n- path: " + c18yq(r.spell(p)) + "\n"
			}
			if rng.Chance(35) {
				// a multi-document plugin entry of mixed kinds: a stage that installs another localizing
				// function (PatchStrategicMerge paths) BEFORE a plugin whose plain path field names a file
				// that is not itself a k8s resource
				p1 := r.add(r.fname("mpsm", ".yaml"), smpDoc(r.depName(), 11))
				first := "apiVersion: builtin\nkind: PatchStrategicMergeTransformer\nmetadata:\n  name: " + r.tagN + fmt.Sprintf("-mpsm%d", i) + "\npaths:\n- " + c18yq(r.spell(p1)) + "\n"
				var second string
				switch rng.Intn(3) {
				case 0:
					p2 := r.add(r.fname("mj", ".yaml"), json6902Doc)
					second = "apiVersion: builtin\nkind: PatchJson6902Transformer\nmetadata:\n  name: " + r.tagN + fmt.Sprintf("-mpj%d", i) + "\ntarget:\n  group: apps\n  version: v1\n  kind: Deployment\n  name: " + r.depName() + "\npath: " + c18yq(r.spell(p2)) + "\n"
				case 1:
					p2 := r.add(r.fname("mrepl", ".yaml"),
						"source:\n  kind: Deployment\n  name: "+r.depName()+"\n  fieldPath: metadata.name\ntargets:\n- select:\n    kind: Deployment\n    name: "+r.depName()+"\n  fieldPaths:\n  - spec.template.metadata.labels.app\n")
					second = "apiVersion: builtin\nkind: ReplacementTransformer\nmetadata:\n  name: " + r.tagN + fmt.Sprintf("-mrt%d", i) + "\nreplacements:\n- path: " + c18yq(r.spell(p2)) + "\n"
				default:
					p2 := r.add(r.fname("mjp", ".yaml"), json6902Doc)
					second = "apiVersion: builtin\nkind: PatchTransformer\nmetadata:\n  name: " + r.tagN + fmt.Sprintf("-mpt%d", i) + "\ntarget:\n  kind: Deployment\n  name: " + r.depName() + "\npath: " + c18yq(r.spell(p2)) + "\n"
				}
				body = first + "---\n" + second
				r.t.tag("plugin:multi-document-mixed-kinds")
			}
			f := r.add(r.fname("tr", ".yaml"), body)
			items = append(items, r.spell(f))
		}
		r.fields["transformers"] = append(r.fields["transformers"], items...)
	}
	if rng.Chance(4) {
		f := r.add(r.fname("val", ".yaml"), "apiVersion: builtin\nkind: PatchTransformer\nmetadata:\n  name: "+r.tagN+"-val\npatch: '[]'\ntarget:\n  kind: Nothing\n")
		r.fields["validators"] = append(r.fields["validators"], r.spell(f))
	}
}

// fillHelm gives the root helm fields with a LOCAL chart home: a directory with a few files and
// sub-directories that copyChartHome / copyDir must mirror into the destination.
func (r *root18) fillHelm() {
	rng := r.rng
	t := r.t
	home := "charts" // types.HelmDefaultHome
	entry := ""      // what the kustomization says ("" = not mentioned)
	exists := true
	switch x := rng.Intn(100); {
	case x < 35:
		t.tag("helm:default-home")
	case x < 55:
		home, entry = "mycharts", "mycharts"
		t.tag("helm:named-home")
	case x < 65:
		home, entry = "mycharts", "./h/../mycharts"
		t.tag("helm:uncleaned-home")
	case x < 72:
		home, entry = "charts", "charts"
		t.tag("helm:explicit-default-home")
	case x < 82 && r.dir != r.scope:
		home, entry = "../sharedcharts", "../sharedcharts"
		t.tag("helm:home-outside-root")
	case x < 90:
		home, entry, exists = "nocharts", "nocharts", false
		t.tag("helm:missing-home")
	default:
		if r.adv && rng.Bool() {
			home, entry = "/abs-charts", "/abs-charts"
			t.tag("helm:absolute-home")
		} else if r.adv {
			home, entry = "../../../outcharts", "../../../outcharts"
			t.tag("helm:home-outside-scope")
		} else {
			t.tag("helm:default-home")
		}
	}
	homeAbs := filepath.Join(r.dir, home)
	if filepath.IsAbs(home) {
		homeAbs = home
	}
	if exists {
		t.Files[homeAbs+"/app/Chart.yaml"] = "apiVersion: v2\nname: app\nversion: 0.1.0\n"
		t.Files[homeAbs+"/app/values.yaml"] = "replicas: 1\n"
		t.Files[homeAbs+"/app/templates/cm.yaml"] = cmDoc(r.tagN + "-chart")
		if rng.Chance(60) {
			t.Files[homeAbs+"/app/templates/sub/extra.yaml"] = cmDoc(r.tagN + "-chart-extra")
		}
		if rng.Chance(50) {
			t.Dirs = append(t.Dirs, homeAbs+"/app/crds")
		}
		if rng.Chance(30) {
			t.Files[homeAbs+"/second/Chart.yaml"] = "apiVersion: v2\nname: second\nversion: 0.2.0\n"
		}
	}
	values := ""
	var more []string
	if rng.Chance(70) {
		values = r.spell(r.add(r.fname("hvalues", ".yaml"), "replicas: 2\n"))
	}
	if rng.Chance(35) {
		more = append(more, r.spell(r.add(r.fname("hmore", ".yaml"), "replicas: 3\n")))
	}
	if exists && !filepath.IsAbs(home) && !strings.HasPrefix(home, "..") && rng.Chance(15) {
		// a values file INSIDE the chart home: it is copied before the home itself
		values = filepath.Join(home, "app/values.yaml")
		t.tag("helm:values-inside-home")
	}
	switch x := rng.Intn(100); {
	case x < 60:
		r.lines = append(r.lines, "helmCharts:", "- name: app", "  releaseName: rel")
		if values != "" {
			r.lines = append(r.lines, "  valuesFile: "+yq(values))
		}
		if len(more) > 0 {
			r.lines = append(r.lines, "  additionalValuesFiles:")
			for _, m := range more {
				r.lines = append(r.lines, "  - "+yq(m))
			}
		}
		if entry != "" {
			r.lines = append(r.lines, "helmGlobals:", "  chartHome: "+yq(entry))
		}
		t.tag("helm:helmCharts")
	case x < 80:
		r.lines = append(r.lines, "helmChartInflationGenerator:", "- chartName: app", "  releaseName: rel")
		if values != "" {
			r.lines = append(r.lines, "  values: "+yq(values))
		}
		if entry != "" {
			r.lines = append(r.lines, "  chartHome: "+yq(entry))
		}
		t.tag("helm:helmChartInflationGenerator")
	default:
		body := "apiVersion: builtin\nkind: HelmChartInflationGenerator\nmetadata:\n  name: " + r.tagN + "-helm\nname: app\nreleaseName: rel\n"
		if values != "" {
			body += "valuesFile: " + yq(values) + "\n"
		}
		if len(more) > 0 {
			body += "additionalValuesFiles:\n"
			for _, m := range more {
				body += "- " + yq(m) + "\n"
			}
		}
		if entry != "" {
			body += "chartHome: " + yq(entry) + "\n"
		}
		if rng.Chance(50) {
			e := r.add(r.fname("hg", ".env"), "HG="+r.tagN+"\n")
			body += "---\napiVersion: builtin\nkind: ConfigMapGenerator\nmetadata:\n  name: " + r.tagN + "-afterhelm\nenvs:\n- " + c18yq(r.spell(e)) + "\n"
			t.tag("plugin:multi-document-mixed-kinds")
		}
		f := r.add(r.fname("helmgen", ".yaml"), body)
		r.fields["generators"] = append(r.fields["generators"], r.spell(f))
		t.tag("helm:plugin")
	}
}

func (r *root18) emit(kustName string) {
	lines := append([]string{}, r.lines...)
	for _, k := range []string{"resources", "bases", "components", "configurations", "crds",
		"patchesStrategicMerge", "generators", "transformers", "validators"} {
		lines = append(lines, yamlList(k, r.fields[k])...)
	}
	r.t.Files[filepath.Join(r.dir, kustName)] = strings.Join(lines, "\n") + "\n"
}

func relTo(from, to string) string {
	rel, err := filepath.Rel(from, to)
	if err != nil {
		return to
	}
	return rel
}

func genTree18(rng *Rng) *tree18 {
	t := &tree18{Files: map[string]string{}}
	scopeDir := rng.Pick([]string{"/s", "/s", "/w/sc", "/s"})
	// layout of roots
	var targetDir string
	switch x := rng.Intn(100); {
	case x < 50:
		targetDir = scopeDir + "/t"
	case x < 75:
		targetDir = scopeDir + "/a/t"
	case x < 90:
		targetDir = scopeDir // target == scope
	default:
		targetDir = scopeDir + "/t1"
	}
	nRoots := 1 + rng.Intn(3)
	type rootPlan struct {
		dir, kind, via string // via: field of the referrer
		from            int
	}
	plans := []rootPlan{{dir: targetDir, kind: "Kustomization", from: -1}}
	used := map[string]bool{targetDir: true}
	for i := 1; i < nRoots; i++ {
		from := rng.Intn(len(plans))
		if plans[from].kind == "Component" && rng.Chance(70) {
			from = 0
		}
		var dir string
		for tries := 0; tries < 10; tries++ {
			switch x := rng.Intn(100); {
			case x < 35 && targetDir != scopeDir:
				dir = scopeDir + "/" + rng.Pick([]string{"base", "common", "lib"})
			case x < 55 && targetDir != scopeDir:
				dir = scopeDir + "/x/" + rng.Pick([]string{"comp", "base2"})
			case x < 80:
				dir = plans[from].dir + "/" + rng.Pick([]string{"sub", "inner", "over"})
			default:
				dir = targetDir + "/" + rng.Pick([]string{"k1", "k2"})
			}
			if !used[dir] {
				break
			}
			dir = ""
		}
		if dir == "" {
			continue
		}
		used[dir] = true
		kind, via := "Kustomization", "resources"
		switch x := rng.Intn(100); {
		case x < 55:
		case x < 75:
			via = "bases"
		default:
			kind, via = "Component", "components"
		}
		plans = append(plans, rootPlan{dir: dir, kind: kind, via: via, from: from})
	}
	roots := make([]*root18, len(plans))
	refs := make([]map[string][]string, len(plans))
	for i, p := range plans {
		roots[i] = &root18{dir: p.dir, tagN: fmt.Sprintf("r%d", i), kind: p.kind, t: t, rng: rng.Fork(), fields: map[string][]string{}}
		refs[i] = map[string][]string{}
	}
	for i := 1; i < len(plans); i++ {
		p := plans[i]
		rel := relTo(plans[p.from].dir, p.dir)
		switch x := rng.Intn(100); {
		case x < 60:
		case x < 75:
			rel = "./" + rel
		case x < 85:
			rel = rel + "/"
		default:
			rel = "q/../" + rel
		}
		if strings.HasPrefix(p.dir, plans[p.from].dir+"/") && rng.Chance(35) {
			// something inside the root's directory referenced BEFORE the root itself: the root's mirror
			// directory then already exists when the root is localized
			t.Files[p.dir+"/extra/ns.yaml"] = cmDoc(fmt.Sprintf("r%d-early", i))
			refs[p.from]["resources"] = append(refs[p.from]["resources"], relTo(plans[p.from].dir, p.dir)+"/extra/ns.yaml")
			t.tag("order:file-in-root-before-root")
		}
		refs[p.from][p.via] = append(refs[p.from][p.via], rel)
	}
	if rng.Chance(14) {
		// a DIAMOND ACROSS DEPTHS: one local root referenced from kustomizations at different directory
		// depths, so the localized reference differs per referrer (name prefixes keep the build valid)
		t.Files[targetDir+"/dia/base/kustomization.yaml"] = "resources:\n- b.yaml\n"
		t.Files[targetDir+"/dia/base/b.yaml"] = cmDoc("dia-b")
		var entries []string
		if rng.Bool() {
			t.Files[targetDir+"/dia/overlay/kustomization.yaml"] = "namePrefix: ov-\nresources:\n- ../base\n"
			entries = []string{"dia/base", "dia/overlay"}
		} else {
			t.Files[targetDir+"/apps/web/kustomization.yaml"] = "namePrefix: web-\nresources:\n- ../../dia/base\n"
			t.Files[targetDir+"/apps/team/api/kustomization.yaml"] = "namePrefix: api-\nresources:\n- ../../../dia/base\n"
			entries = []string{"apps/web", "apps/team/api"}
			if rng.Bool() {
				entries = append(entries, "dia/base")
			}
		}
		if rng.Bool() {
			for i, j := 0, len(entries)-1; i < j; i, j = i+1, j-1 {
				entries[i], entries[j] = entries[j], entries[i]
			}
		}
		refs[0]["resources"] = append(refs[0]["resources"], entries...)
		t.tag("order:diamond-across-depths")
	}
	if rng.Chance(8) {
		// a nested root referenced before the root that encloses it
		t.Files[targetDir+"/enc/kustomization.yaml"] = "resources:\n- e.yaml\n"
		t.Files[targetDir+"/enc/e.yaml"] = cmDoc("enc-outer")
		t.Files[targetDir+"/enc/in/kustomization.yaml"] = "resources:\n- i.yaml\n"
		t.Files[targetDir+"/enc/in/i.yaml"] = cmDoc("enc-inner")
		refs[0]["resources"] = append(refs[0]["resources"], "enc/in", "enc")
		t.tag("order:inner-root-before-outer")
	}
	// ---- adversarial references (each with small probability) ----
	// dedicated scenario: newDir inside the target and a reference that enters it
	intoNewDir := rng.Chance(7)
	intoScope := scopeDir
	newDirChoice := rng.Intn(100)
	if intoNewDir {
		newDirChoice = 0
	}
	newDir := "/new"
	switch {
	case newDirChoice < 35:
		newDir = "/new"
	case newDirChoice < 50:
		newDir = scopeDir + "/out"
	case newDirChoice < 60:
		newDir = targetDir + "/new"
	case newDirChoice < 68:
		newDir = ""
	case newDirChoice < 74:
		newDir = "new"
	case newDirChoice < 80:
		newDir = "/new/"
	case newDirChoice < 85:
		newDir = "/o/deep/new"
		if rng.Chance(65) {
			t.Dirs = append(t.Dirs, "/o/deep")
		} else {
			t.tag("newdir-parent-missing")
		}
	case newDirChoice < 87:
		newDir = "/exists"
		t.Dirs = append(t.Dirs, "/exists")
		t.tag("newdir-exists")
	case newDirChoice < 89:
		newDir = "/bad name"
		t.tag("newdir-illegal")
	default:
		newDir = "/n/../new2"
	}
	if intoNewDir {
		newDir = targetDir + "/new"
		if rng.Bool() {
			intoScope = targetDir // scope argument left empty below
		}
	}
	absNewDir := lexAbs(newDir)
	if newDir == "" {
		absNewDir = "/localized-" + filepath.Base(targetDir)
	}
	adv := rng.Chance(28) && !intoNewDir
	inj := func(p int) bool { return adv && rng.Chance(p) }
	if inj(12) {
		// reference to a file that does not exist
		refs[0]["resources"] = append(refs[0]["resources"], "missing.yaml")
		t.tag("missing-file")
	}
	if inj(12) && targetDir != scopeDir {
		// file outside the root (inside the scope)
		t.Files[scopeDir+"/loose.yaml"] = cmDoc("loose")
		refs[0]["resources"] = append(refs[0]["resources"], relTo(targetDir, scopeDir+"/loose.yaml"))
		t.tag("file-outside-root")
	}
	if inj(12) {
		// root outside the scope
		t.Files["/outside/kustomization.yaml"] = "resources:\n- o.yaml\n"
		t.Files["/outside/o.yaml"] = cmDoc("outside")
		fld := rng.Pick([]string{"resources", "bases"})
		refs[len(roots)-1][fld] = append(refs[len(roots)-1][fld], relTo(roots[len(roots)-1].dir, "/outside"))
		t.tag("root-outside-scope")
	}
	if inj(10) && len(roots) > 1 {
		// cycle: a sub root refers back to the target
		k := 1 + rng.Intn(len(roots)-1)
		refs[k]["resources"] = append(refs[k]["resources"], relTo(roots[k].dir, targetDir))
		t.tag("cycle")
	}
	if intoNewDir {
		mirror := filepath.Join(relTo(targetDir, absNewDir), relTo(intoScope, targetDir))
		if rng.Bool() {
			// a file reference INTO the destination: the copy made a moment ago
			t.Files[targetDir+"/again.yaml"] = cmDoc("again")
			refs[0]["resources"] = append(refs[0]["resources"], "again.yaml", filepath.Join(mirror, "again.yaml"))
			t.tag("file-into-newdir")
		} else {
			// a root reference INTO the destination: the copy of a root localized a moment ago
			t.Files[targetDir+"/twin/kustomization.yaml"] = "resources:\n- tw.yaml\n"
			t.Files[targetDir+"/twin/tw.yaml"] = cmDoc("twin")
			refs[0]["resources"] = append(refs[0]["resources"], "twin", filepath.Join(mirror, "twin"))
			t.tag("root-into-newdir")
		}
	}
	if inj(10) {
		refs[0]["bases"] = append(refs[0]["bases"], relTo(targetDir, absNewDir))
		t.tag("root-into-missing-newdir")
	}
	if inj(8) {
		refs[0]["resources"] = append(refs[0]["resources"], targetDir+"/sub-abs")
		t.Files[targetDir+"/sub-abs/kustomization.yaml"] = "resources: []\n"
		t.tag("absolute-root")
	}
	if rng.Chance(14) {
		roots[rng.Intn(len(roots))].helm = true
	} else if rng.Chance(20) {
		// the fragment shared with the integrated build model: resources (files, nested roots) only
		for i := range roots {
			if roots[i].kind == "Kustomization" {
				roots[i].resOnly = true
			}
		}
		t.tag("resources-only")
	}
	for i := range roots {
		roots[i].adv = adv
		roots[i].scope = scopeDir
		roots[i].fill(refs[i])
	}
	if inj(10) {
		// generator file source with two '='
		roots[0].fields["generators"] = append(roots[0].fields["generators"], roots[0].add("badgen.yaml",
			"apiVersion: builtin\nkind: SecretGenerator\nmetadata:\n  name: bad\nfiles:\n- a=b=c.txt\n"))
		t.tag("bad-file-source")
	}
	if inj(8) {
		roots[len(roots)-1].lines = append(roots[len(roots)-1].lines, "unknownField: 1")
		t.tag("unparsable-kustomization")
	}
	if inj(10) {
		// a resources entry that is neither a resource file nor a root
		roots[0].add("notes.txt", "just text\n")
		if rng.Bool() {
			roots[0].fields["crds"] = append(roots[0].fields["crds"], "notes.txt")
		} else {
			roots[0].fields["resources"] = append(roots[0].fields["resources"], "notes.txt")
		}
		if rng.Bool() {
			roots[0].fields["configurations"] = append(roots[0].fields["configurations"], "d9")
		}
		t.Dirs = append(t.Dirs, targetDir+"/d9")
		t.tag("dir-as-file")
	}
	for i, r := range roots {
		name := "kustomization.yaml"
		switch x := rng.Intn(100); {
		case x < 80:
		case x < 90:
			name = "kustomization.yml"
		default:
			name = "Kustomization"
		}
		r.emit(name)
		if inj(6) {
			r.emit("kustomization.yml")
			r.emit("Kustomization")
			t.tag("multiple-kustomization-files")
		}
		if i > 0 && inj(8) {
			delete(t.Files, filepath.Join(r.dir, name))
			t.Dirs = append(t.Dirs, r.dir)
			t.tag("no-kustomization-file")
		}
	}
	// ---- arguments ----
	t.Target = targetDir
	argRoll := rng.Intn(100)
	if intoNewDir {
		argRoll = 0
	}
	switch x := argRoll; {
	case x < 70:
	case x < 76:
		t.Target = targetDir + "/"
	case x < 82:
		t.Target = strings.TrimPrefix(targetDir, "/")
	case x < 88:
		t.Target = filepath.Dir(targetDir) + "/./" + filepath.Base(targetDir)
	case x < 94:
		t.Target = targetDir + "/zz/.."
	case x < 96:
		t.Target = targetDir + "/nope"
		t.tag("target-missing")
	case x < 98:
		// a file
		for p := range t.Files {
			if strings.HasPrefix(p, targetDir+"/") {
				t.Target = p
			}
		}
		keys := make([]string, 0, len(t.Files))
		for p := range t.Files {
			keys = append(keys, p)
		}
		sort.Strings(keys)
		t.Target = keys[0]
		t.tag("target-is-file")
	default:
		t.Target = targetDir
	}
	scopeRoll := rng.Intn(100)
	if intoNewDir {
		scopeRoll = 0
		if intoScope == targetDir {
			scopeRoll = 60
		}
	}
	allUnderTarget := true
	for _, pl := range plans {
		if pl.dir != targetDir && !strings.HasPrefix(pl.dir, targetDir+"/") {
			allUnderTarget = false
		}
	}
	for fp := range t.Files {
		if strings.Contains(fp, "/sharedcharts/") {
			allUnderTarget = false
		}
	}
	if !allUnderTarget && scopeRoll >= 55 && scopeRoll < 94 {
		if adv && rng.Chance(30) {
			t.tag("scope-excludes-sibling-root")
		} else {
			scopeRoll = 0 // a default / target scope would put sibling roots outside the scope
		}
	}
	switch x := scopeRoll; {
	case x < 55:
		t.Scope = scopeDir
	case x < 75:
		t.Scope = ""
		t.tag("scope-default")
	case x < 82:
		t.Scope = scopeDir + "/"
	case x < 88:
		t.Scope = targetDir
	case x < 94:
		t.Scope = "/"
	case x < 96:
		t.Scope = scopeDir + "/elsewhere"
		t.Dirs = append(t.Dirs, scopeDir+"/elsewhere")
		t.tag("scope-not-containing-target")
	case x < 98:
		t.Scope = "/nonexistent"
		t.tag("scope-missing")
	default:
		t.Scope = scopeDir
	}
	t.NewDir = newDir
	sort.Strings(t.Dirs)
	t.ExpectOk = true
	for _, tg := range t.Tags {
		if invalidTags18[tg] {
			t.ExpectOk = false
		}
	}
	return t
}

// lexAbs is the in-memory file system's reading of a raw path: relative paths hang off "/".
func lexAbs(p string) string {
	return filepath.Clean("/" + strings.TrimLeft(p, "/"))
}
