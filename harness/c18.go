package main

import (
	"fmt"
	"log"
	"os"

	"sigs.k8s.io/kustomize/api/krusty/localizer"
	"sigs.k8s.io/kustomize/kyaml/filesys"
)

func init() {
	register("C18", propDef{
		header:     "From KV Require Import Corr.C18.\nOpen Scope string_scope.\n",
		caseType:   "case18",
		mismatchFn: "mismatches18",
		run:        func(r *Run, rng *Rng, tier string) error { return nil },
		replay:     probe18,
	})
}

func probe18(path string) (bool, string, error) {
	log.SetOutput(fatalTrap{})
	mk := func() filesys.FileSystem {
		fs := filesys.MakeFsInMemory()
		w := func(p, c string) { _ = fs.WriteFile(p, []byte(c)) }
		w("/s/t/kustomization.yaml", "resources:\n- dep.yaml\n- ../base\npatches:\n- path: sub/../p.yaml\nconfigMapGenerator:\n- name: x\n  files:\n  - k=data.txt\n  envs:\n  - e.env\n")
		w("/s/t/dep.yaml", "apiVersion: v1\nkind: ConfigMap\nmetadata:\n  name: a\n")
		w("/s/t/p.yaml", "apiVersion: v1\nkind: ConfigMap\nmetadata:\n  name: a\ndata:\n  x: y\n")
		w("/s/t/data.txt", "hello")
		w("/s/t/e.env", "A=B\n")
		_ = fs.MkdirAll("/s/t/sub")
		w("/s/base/kustomization.yaml", "resources:\n- cm.yaml\n")
		w("/s/base/cm.yaml", "apiVersion: v1\nkind: ConfigMap\nmetadata:\n  name: b\n")
		return fs
	}
	for fault := -1; fault < 60; fault++ {
		inner := mk()
		ffs := newFaultFS(inner, fault)
		var dst string
		var err error
		cls, msg := func() (cls string, msg string) {
			defer func() {
				if r := recover(); r != nil {
					if fs, ok := r.(fatalSentinel); ok {
						cls, msg = "Fatal", fs.msg
						return
					}
					cls, msg = ClsPanic, fmt.Sprint(r)
				}
			}()
			dst, err = localizer.Run(ffs, "/s/t", "/s", "/new")
			if err != nil {
				return ClsErr, err.Error()
			}
			return ClsOk, ""
		}()
		fmt.Printf("=== fault=%d faulted=%v cls=%s dst=%q newDirExists=%v msg=%.100s\n", fault, ffs.faulted, cls, dst, inner.Exists("/new"), msg)
		if fault == -1 || os.Getenv("C18_V") != "" {
			for i, e := range ffs.trace {
				fmt.Printf("  %2d %-10s %-40s %v\n", i, e.Op, e.Path, e.Ok)
			}
			for _, e := range snapshot(inner) {
				fmt.Printf("   fs %s dir=%v\n", e.Path, e.IsDir)
			}
		}
		if fault >= 0 && !ffs.faulted {
			break
		}
	}
	return false, "probe", nil
}
