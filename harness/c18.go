package main

import (
	"encoding/json"
	"fmt"
	"log"
	"os"
	"os/exec"
	"path/filepath"
	"reflect"
	"sort"
	"strings"

	"sigs.k8s.io/kustomize/api/krusty"
	"sigs.k8s.io/kustomize/api/krusty/localizer"
	"sigs.k8s.io/kustomize/api/provider"
	"sigs.k8s.io/kustomize/api/resmap"
	"sigs.k8s.io/kustomize/api/types"
	"sigs.k8s.io/kustomize/kyaml/filesys"
	kyaml "sigs.k8s.io/kustomize/kyaml/yaml"
)

// C18: `kustomize localize` is confined, equivalent and all-or-nothing.
//
// Correspondence: the real localizer (api/krusty/localizer.Run) on a recording, fault-injecting
// wrapper of the in-memory file system, for "no fault" and for EVERY fault index, against the
// effect-program model KV.Fs.Localize: outcome class, complete effect trace (op, path, ok) and the
// final file-system state (file contents symbolically: copy of source #id / localized
// kustomization with these path fields / localized plugin with these paths).
// Search: the property's laws evaluated on the implementation for every run (see laws18).

func init() {
	register("C18", propDef{
		header:     "From KV Require Import Corr.C18.\nOpen Scope string_scope.\n",
		caseType:   "case18",
		mismatchFn: "mismatches18",
		run:        runC18,
		replay:     replayC18,
	})
}

const (
	kOk    = "COk"
	kErr   = "CErr"
	kFatal = "CFatal"
	kPanic = "CPanic"
)

type locRun struct {
	Fault      int
	Faulted    bool
	Cls        string
	Dst        string
	Msg        string
	Trace      []fsEvent
	Final      []fsEntry
	NFallible  int
	Unexpected []string
	inner      filesys.FileSystem
}

func buildFS18(t *tree18) filesys.FileSystem {
	fs := filesys.MakeFsInMemory()
	for _, d := range t.Dirs {
		_ = fs.MkdirAll(d)
	}
	keys := make([]string, 0, len(t.Files))
	for p := range t.Files {
		keys = append(keys, p)
	}
	sort.Strings(keys)
	for _, p := range keys {
		_ = fs.WriteFile(p, []byte(t.Files[p]))
	}
	return fs
}

// runLoc18 runs the real localizer once, in process. fault < 0: no fault.
func runLoc18(t *tree18, fault int) *locRun {
	log.SetOutput(fatalTrap{})
	inner := buildFS18(t)
	ffs := newFaultFS(inner, fault)
	r := &locRun{Fault: fault, inner: inner}
	r.Cls, r.Msg = runTrapped(func() error {
		dst, err := localizer.Run(ffs, t.Target, t.Scope, t.NewDir)
		if err == nil {
			r.Dst = dst
		}
		return err
	})
	r.Faulted = ffs.faulted
	r.Trace = ffs.trace
	r.NFallible = ffs.nFallible
	r.Unexpected = ffs.unexpected
	r.Final = snapshot(inner)
	return r
}

// ---------- oracle tables for the model ----------

var rf18 = resmap.NewFactory(provider.NewDepProvider().GetResourceFactory())

func isRes18(b []byte) bool {
	ok := false
	func() {
		defer func() { _ = recover() }()
		_, err := rf18.NewResMapFromBytes(b)
		ok = err == nil
	}()
	return ok
}

func parseKust18(b []byte) (*types.Kustomization, bool) {
	var k types.Kustomization
	ok := false
	func() {
		defer func() { _ = recover() }()
		ok = k.Unmarshal(b) == nil
	}()
	return &k, ok
}

type pref18 struct {
	Kind string // PFile | PFileSource | PK8s
	Path string
}

// pluginRefs lists the path references of a built-in plugin file in the order in which
// builtinplugins.go's filter localizes them; the returned nodes allow reading them back.
func pluginRefs(b []byte) ([]pref18, bool) {
	if !isRes18(b) {
		return nil, false
	}
	rm, err := rf18.NewResMapFromBytes(b)
	if err != nil {
		return nil, false
	}
	var out []pref18
	scalarOrSeq := func(n *kyaml.RNode, kind string) {
		if n == nil {
			return
		}
		switch n.YNode().Kind {
		case kyaml.ScalarNode:
			out = append(out, pref18{kind, n.YNode().Value})
		case kyaml.SequenceNode:
			els, _ := n.Elements()
			for _, e := range els {
				out = append(out, pref18{kind, e.YNode().Value})
			}
		}
	}
	for _, res := range rm.Resources() {
		n := &res.RNode
		if n.GetApiVersion() != "builtin" {
			continue
		}
		kind := n.GetKind()
		get := func(path ...string) *kyaml.RNode {
			v, err := n.Pipe(kyaml.Lookup(path...))
			if err != nil {
				return nil
			}
			return v
		}
		switch kind {
		case "ConfigMapGenerator", "SecretGenerator":
			scalarOrSeq(get("env"), "PFile")
			scalarOrSeq(get("envs"), "PFile")
			scalarOrSeq(get("files"), "PFileSource")
		case "PatchTransformer", "PatchJson6902Transformer":
			scalarOrSeq(get("path"), "PFile")
		case "ReplacementTransformer":
			if reps := get("replacements"); reps != nil && reps.YNode().Kind == kyaml.SequenceNode {
				els, _ := reps.Elements()
				for _, e := range els {
					p, err := e.Pipe(kyaml.Lookup("path"))
					if err == nil && p != nil {
						scalarOrSeq(p, "PFile")
					}
				}
			}
		case "PatchStrategicMergeTransformer":
			scalarOrSeq(get("paths"), "PK8s")
		case "HelmChartInflationGenerator":
			scalarOrSeq(get("valuesFile"), "PFile")
			scalarOrSeq(get("additionalValuesFiles"), "PFile")
			if home := get("chartHome"); home != nil {
				out = append(out, pref18{"PHome", home.YNode().Value})
			} else {
				out = append(out, pref18{"PHomeDefault", ""})
			}
		}
	}
	return out, true
}

func remoteLike(s string) bool {
	return strings.ContainsAny(s, ":@") || strings.Contains(s, "github.com")
}

type tables18 struct {
	ids     map[string]int // content -> id
	kusts   map[int]*types.Kustomization
	res     map[int]bool
	plugs   map[int][]pref18
	inline  map[string]bool
	plugAt  map[string]bool // absolute clean paths of plugin files (referenced from generators/transformers/validators)
	inModel bool
	why     string
}

func kustEntries(k *types.Kustomization) (files []string, k8s []string, plugins []string) {
	if p, ok := k.OpenAPI["path"]; ok {
		files = append(files, p)
	}
	//nolint:staticcheck
	files = append(files, k.Bases...)
	files = append(files, k.Components...)
	files = append(files, k.Configurations...)
	files = append(files, k.Crds...)
	files = append(files, k.Resources...)
	for _, g := range k.ConfigMapGenerator {
		files = append(files, g.EnvSource)
		files = append(files, g.EnvSources...)
		for _, f := range g.FileSources {
			files = append(files, f[strings.Index(f, "=")+1:])
		}
	}
	for _, g := range k.SecretGenerator {
		files = append(files, g.EnvSource)
		files = append(files, g.EnvSources...)
		for _, f := range g.FileSources {
			files = append(files, f[strings.Index(f, "=")+1:])
		}
	}
	for _, p := range k.Patches {
		files = append(files, p.Path)
	}
	//nolint:staticcheck
	for _, p := range k.PatchesJson6902 {
		files = append(files, p.Path)
	}
	//nolint:staticcheck
	for _, p := range k.PatchesStrategicMerge {
		k8s = append(k8s, string(p))
	}
	for _, r := range k.Replacements {
		files = append(files, r.Path)
	}
	plugins = append(plugins, k.Generators...)
	plugins = append(plugins, k.Transformers...)
	plugins = append(plugins, k.Validators...)
	return
}

func makeTables18(t *tree18) *tables18 {
	tb := &tables18{ids: map[string]int{}, kusts: map[int]*types.Kustomization{}, res: map[int]bool{},
		plugs: map[int][]pref18{}, inline: map[string]bool{}, plugAt: map[string]bool{}, inModel: true}
	paths := make([]string, 0, len(t.Files))
	for p := range t.Files {
		paths = append(paths, p)
	}
	sort.Strings(paths)
	out := func(why string) {
		if tb.inModel {
			tb.inModel, tb.why = false, why
		}
	}
	for _, p := range paths {
		c := t.Files[p]
		if _, ok := tb.ids[c]; ok {
			continue
		}
		id := len(tb.ids) + 1
		tb.ids[c] = id
		if k, ok := parseKust18([]byte(c)); ok {
			tb.kusts[id] = k
		}
		if isRes18([]byte(c)) {
			tb.res[id] = true
			if refs, ok := pluginRefs([]byte(c)); ok && len(refs) > 0 {
				tb.plugs[id] = refs
			}
		}
	}
	if remoteLike(t.Target) {
		out("remote-like target")
	}
	checkInline := func(s string) bool {
		in := isRes18([]byte(s))
		if in {
			tb.inline[s] = true
		}
		return in
	}
	for _, p := range paths {
		id := tb.ids[t.Files[p]]
		k, ok := tb.kusts[id]
		if !ok {
			continue
		}
		files, k8s, plugins := kustEntries(k)
		for _, f := range files {
			if remoteLike(f) {
				out("remote-like entry")
			}
		}
		for _, e := range k8s {
			if !checkInline(e) && remoteLike(e) {
				out("remote-like entry")
			}
		}
		for _, e := range plugins {
			if checkInline(e) {
				out("inline plugin")
			} else {
				if remoteLike(e) {
					out("remote-like entry")
				}
				if !filepath.IsAbs(e) {
					tb.plugAt[filepath.Join(filepath.Dir(p), e)] = true
				} else {
					tb.plugAt[filepath.Clean(e)] = true
				}
			}
		}
		for _, h := range k.HelmChartInflationGenerator { //nolint:staticcheck
			if remoteLike(h.Values) || remoteLike(h.ChartHome) {
				out("remote-like entry")
			}
		}
		for _, h := range k.HelmCharts {
			if remoteLike(h.ValuesFile) {
				out("remote-like entry")
			}
			for _, a := range h.AdditionalValuesFiles {
				if remoteLike(a) {
					out("remote-like entry")
				}
			}
		}
		if k.HelmGlobals != nil && remoteLike(k.HelmGlobals.ChartHome) {
			out("remote-like entry")
		}
	}
	for _, refs := range tb.plugs {
		for _, r := range refs {
			if r.Kind == "PK8s" {
				if !checkInline(r.Path) && remoteLike(r.Path) {
					out("remote-like entry")
				}
			} else if remoteLike(r.Path) {
				out("remote-like entry")
			}
		}
	}
	return tb
}

// ---------- Coq terms ----------

func genargsTerm(g types.GeneratorArgs) string {
	return fmt.Sprintf("(mkGen %s %s %s)", coqStr(g.EnvSource), coqStrList(g.EnvSources), coqStrList(g.FileSources))
}

func kustTerm(k *types.Kustomization) string {
	oa := "None"
	if p, ok := k.OpenAPI["path"]; ok {
		oa = "(Some " + coqStr(p) + ")"
	}
	var cms, secs, pats, p69, psm, repl []string
	for _, g := range k.ConfigMapGenerator {
		cms = append(cms, genargsTerm(g.GeneratorArgs))
	}
	for _, g := range k.SecretGenerator {
		secs = append(secs, genargsTerm(g.GeneratorArgs))
	}
	for _, p := range k.Patches {
		pats = append(pats, p.Path)
	}
	//nolint:staticcheck
	for _, p := range k.PatchesJson6902 {
		p69 = append(p69, p.Path)
	}
	//nolint:staticcheck
	for _, p := range k.PatchesStrategicMerge {
		psm = append(psm, string(p))
	}
	for _, r := range k.Replacements {
		repl = append(repl, r.Path)
	}
	var hinfl, hcharts []string
	for _, h := range k.HelmChartInflationGenerator { //nolint:staticcheck
		hinfl = append(hinfl, fmt.Sprintf("(%s, %s)", coqStr(h.Values), coqStr(h.ChartHome)))
	}
	for _, h := range k.HelmCharts {
		hcharts = append(hcharts, fmt.Sprintf("(%s, %s)", coqStr(h.ValuesFile), coqStrList(h.AdditionalValuesFiles)))
	}
	hglob := "None"
	if k.HelmGlobals != nil {
		hglob = "(Some " + coqStr(k.HelmGlobals.ChartHome) + ")"
	}
	//nolint:staticcheck
	return fmt.Sprintf("(mkKust %s %s %s %s %s %s [%s] [%s] [%s] [%s] %s %s %s %s %s %s %s %s)", oa,
		coqStrList(k.Bases), coqStrList(k.Components), coqStrList(k.Configurations), coqStrList(k.Crds),
		coqStrList(k.Resources), strings.Join(cms, "; "), strings.Join(secs, "; "),
		strings.Join(hinfl, "; "), strings.Join(hcharts, "; "), hglob,
		coqStrList(pats), coqStrList(p69), coqStrList(psm), coqStrList(repl),
		coqStrList(k.Generators), coqStrList(k.Transformers), coqStrList(k.Validators))
}

func prefsTerm(refs []pref18) string {
	parts := make([]string, len(refs))
	for i, r := range refs {
		parts[i] = fmt.Sprintf("(%s, %s)", r.Kind, coqStr(r.Path))
	}
	return "[" + strings.Join(parts, "; ") + "]"
}

const unknownID = 4000000000

// geometry of a tree's arguments as the in-memory file system resolves them
type geo18 struct {
	absNewDir string // where newDir will be
	absScope  string
	absTarget string
	parentOK  bool // the parent of newDir is an existing directory
	fresh     bool // newDir does not exist initially
}

func geometry18(t *tree18, initial filesys.FileSystem) geo18 {
	g := geo18{absTarget: lexAbs(t.Target)}
	g.absScope = lexAbs(t.Scope)
	if t.Scope == "" {
		g.absScope = g.absTarget
	}
	if t.NewDir == "" {
		if g.absTarget == "/" {
			g.absNewDir = "/localized"
		} else {
			g.absNewDir = "/localized-" + filepath.Base(g.absTarget)
		}
	} else {
		g.absNewDir = lexAbs(t.NewDir)
	}
	g.parentOK = initial.IsDir(filepath.Dir(g.absNewDir))
	g.fresh = !initial.Exists(g.absNewDir)
	return g
}

// contentTerm classifies the bytes of a file of a final state.
func contentTerm(path, content string, tb *tables18, g geo18) string {
	if insideDir(g.absNewDir, path) && path != g.absNewDir {
		base := filepath.Base(path)
		if base == "kustomization.yaml" || base == "kustomization.yml" || base == "Kustomization" {
			if k, ok := parseKust18([]byte(content)); ok {
				src := ""
				if rel, err := filepath.Rel(g.absNewDir, path); err == nil {
					src = filepath.Join(g.absScope, rel)
				}
				return fmt.Sprintf("(CKust %d %s)", tb.srcID(src), kustTerm(k))
			}
		}
		rel, err := filepath.Rel(g.absNewDir, path)
		if err == nil {
			src := filepath.Join(g.absScope, rel)
			if tb.plugAt[src] {
				if refs, ok := pluginRefs([]byte(content)); ok {
					ps := make([]string, len(refs))
					for i, r := range refs {
						ps[i] = r.Path
					}
					return fmt.Sprintf("(CPlug %d %s)", tb.srcID(src), coqStrList(ps))
				}
			}
		}
	}
	if id, ok := tb.ids[content]; ok {
		return fmt.Sprintf("(CRaw %d)", id)
	}
	return fmt.Sprintf("(CRaw %d)", unknownID)
}

var curTree18 *tree18

func (tb *tables18) srcID(path string) int {
	if curTree18 != nil {
		if c, ok := curTree18.Files[path]; ok {
			return tb.ids[c]
		}
	}
	return unknownID
}

func listingTerm(l []fsEntry, tb *tables18, g geo18) string {
	parts := make([]string, len(l))
	for i, e := range l {
		if e.IsDir {
			parts[i] = fmt.Sprintf("(%s, EDir)", coqStr(e.Path))
		} else {
			parts[i] = fmt.Sprintf("(%s, EFile %s)", coqStr(e.Path), contentTerm(e.Path, e.Content, tb, g))
		}
	}
	return "[" + strings.Join(parts, "; ") + "]"
}

var opCode18 = map[string]int{"Exists": 0, "IsDir": 1, "Mkdir": 2, "MkdirAll": 3, "CleanedAbs": 4, "ReadFile": 5, "WriteFile": 6, "RemoveAll": 7, "Walk": 8}

func traceTerm(tr []fsEvent) (string, bool) {
	parts := make([]string, len(tr))
	for i, e := range tr {
		c, ok := opCode18[e.Op]
		if !ok {
			return "", false
		}
		parts[i] = fmt.Sprintf("ev %d %s %s", c, coqStr(e.Path), coqBool(e.Ok))
	}
	return "[" + strings.Join(parts, "; ") + "]", true
}

func sameListing(a, b []fsEntry) bool {
	if len(a) != len(b) {
		return false
	}
	for i := range a {
		if a[i] != b[i] {
			return false
		}
	}
	return true
}

func obsTerm(r *locRun, initial []fsEntry, tb *tables18, g geo18) (string, bool) {
	fault := "None"
	if r.Fault >= 0 {
		fault = fmt.Sprintf("(Some %d)", r.Fault)
	}
	var cls string
	switch r.Cls {
	case kOk:
		cls = "(KOk " + coqStr(r.Dst) + ")"
	case kErr:
		cls = "KErr"
	case kFatal:
		cls = "KFatal"
	default:
		cls = "KPanic"
	}
	tr, ok := traceTerm(r.Trace)
	if !ok {
		return "", false
	}
	final := "FSame"
	if !sameListing(r.Final, initial) {
		final = "(FList " + listingTerm(r.Final, tb, g) + ")"
	}
	return fmt.Sprintf("(mkObs %s %s %s %s)", fault, cls, tr, final), true
}

func caseTerm18(t *tree18, tb *tables18, initial []fsEntry, g geo18, runs []*locRun) (string, bool) {
	var ks, res, plugs []string
	ids := make([]int, 0, len(tb.ids))
	for _, id := range tb.ids {
		ids = append(ids, id)
	}
	sort.Ints(ids)
	for _, id := range ids {
		if k, ok := tb.kusts[id]; ok {
			ks = append(ks, fmt.Sprintf("(%d%%N, %s)", id, kustTerm(k)))
		}
		if tb.res[id] {
			res = append(res, fmt.Sprintf("%d%%N", id))
		}
		if refs, ok := tb.plugs[id]; ok {
			plugs = append(plugs, fmt.Sprintf("(%d%%N, %s)", id, prefsTerm(refs)))
		}
	}
	inl := make([]string, 0, len(tb.inline))
	for s := range tb.inline {
		inl = append(inl, s)
	}
	sort.Strings(inl)
	obs := make([]string, 0, len(runs))
	for _, r := range runs {
		o, ok := obsTerm(r, initial, tb, g)
		if !ok {
			return "", false
		}
		obs = append(obs, o)
	}
	return fmt.Sprintf("(mk18 %s %s %s %s [%s] [%s] [%s] %s [%s])",
		listingTerm(initial, tb, g), coqStr(t.Target), coqStr(t.Scope), coqStr(t.NewDir),
		strings.Join(ks, "; "), strings.Join(res, "; "), strings.Join(plugs, "; "),
		coqStrList(inl), strings.Join(obs, ";\n     ")), true
}

// ---------- law oracles on the implementation ----------

type replay18 struct {
	Tree  *tree18 `json:"tree"`
	Fault int     `json:"fault"`
	Mode  string  `json:"mode,omitempty"`
	Base  string  `json:"base,omitempty"`
}

func build18(fs filesys.FileSystem, dir string) (out string, err error) {
	// krusty prints deprecation warnings to os.Stderr: silence them for the duration of the build
	saved := os.Stderr
	if devnull, e := os.OpenFile(os.DevNull, os.O_WRONLY, 0); e == nil {
		os.Stderr = devnull
		defer func() { os.Stderr = saved; devnull.Close() }()
	}
	defer func() {
		if r := recover(); r != nil {
			err = fmt.Errorf("panic: %v", r)
		}
	}()
	k := krusty.MakeKustomizer(krusty.MakeDefaultOptions())
	m, e := k.Run(fs, dir)
	if e != nil {
		return "", e
	}
	y, e := m.AsYaml()
	return string(y), e
}

// blankPaths clears every field the localizer may rewrite.
func blankPaths(k *types.Kustomization) {
	if _, ok := k.OpenAPI["path"]; ok {
		k.OpenAPI["path"] = ""
	}
	z := func(l []string) {
		for i := range l {
			l[i] = ""
		}
	}
	z(k.Bases) //nolint:staticcheck
	z(k.Components)
	z(k.Configurations)
	z(k.Crds)
	z(k.Resources)
	z(k.Generators)
	z(k.Transformers)
	z(k.Validators)
	for i := range k.ConfigMapGenerator {
		k.ConfigMapGenerator[i].EnvSource = ""
		z(k.ConfigMapGenerator[i].EnvSources)
		z(k.ConfigMapGenerator[i].FileSources)
	}
	for i := range k.SecretGenerator {
		k.SecretGenerator[i].EnvSource = ""
		z(k.SecretGenerator[i].EnvSources)
		z(k.SecretGenerator[i].FileSources)
	}
	for i := range k.Patches {
		k.Patches[i].Path = ""
	}
	for i := range k.PatchesJson6902 { //nolint:staticcheck
		k.PatchesJson6902[i].Path = "" //nolint:staticcheck
	}
	for i := range k.PatchesStrategicMerge { //nolint:staticcheck
		k.PatchesStrategicMerge[i] = "" //nolint:staticcheck
	}
	for i := range k.Replacements {
		k.Replacements[i].Path = ""
	}
	for i := range k.HelmCharts {
		k.HelmCharts[i].ValuesFile = ""
		z(k.HelmCharts[i].AdditionalValuesFiles)
	}
	if k.HelmGlobals != nil {
		k.HelmGlobals.ChartHome = ""
	}
	for i := range k.HelmChartInflationGenerator { //nolint:staticcheck
		k.HelmChartInflationGenerator[i].Values = ""    //nolint:staticcheck
		k.HelmChartInflationGenerator[i].ChartHome = "" //nolint:staticcheck
	}
}

func isKustName(b string) bool {
	return b == "kustomization.yaml" || b == "kustomization.yml" || b == "Kustomization"
}

// chartHomes18 lists, per kustomization root directory, the LOCAL chart home directories that
// copyChartHome must mirror (existing directories named by helmGlobals / helmCharts default /
// helmChartInflationGenerator / a HelmChartInflationGenerator plugin file).
func chartHomes18(t *tree18, initial filesys.FileSystem) map[string][]string {
	out := map[string][]string{}
	add := func(rootDir, entry string) {
		p := entry
		if p == "" {
			p = types.HelmDefaultHome
		}
		if filepath.IsAbs(p) {
			return
		}
		src := filepath.Join(rootDir, p)
		if initial.IsDir(src) {
			out[rootDir] = append(out[rootDir], src)
		}
	}
	for p, c := range t.Files {
		if !isKustName(filepath.Base(p)) {
			continue
		}
		k, ok := parseKust18([]byte(c))
		if !ok {
			continue
		}
		d := filepath.Dir(p)
		if k.HelmGlobals != nil {
			add(d, k.HelmGlobals.ChartHome)
		} else if len(k.HelmCharts) > 0 {
			add(d, "")
		}
		for _, h := range k.HelmChartInflationGenerator { //nolint:staticcheck
			add(d, h.ChartHome)
		}
		var plugins []string
		plugins = append(plugins, k.Generators...)
		plugins = append(plugins, k.Transformers...)
		plugins = append(plugins, k.Validators...)
		for _, e := range plugins {
			if isRes18([]byte(e)) || filepath.IsAbs(e) {
				continue
			}
			pc, ok := t.Files[filepath.Join(d, e)]
			if !ok || !isRes18([]byte(pc)) {
				continue
			}
			rm, err := rf18.NewResMapFromBytes([]byte(pc))
			if err != nil {
				continue
			}
			for _, res := range rm.Resources() {
				if res.GetApiVersion() == "builtin" && res.GetKind() == "HelmChartInflationGenerator" {
					home := ""
					if v, err := res.Pipe(kyaml.Lookup("chartHome")); err == nil && v != nil {
						home = v.YNode().Value
					}
					add(d, home)
				}
			}
		}
	}
	return out
}

// faultedEvent returns the event that was made to fail (nil when none): call number = trace index.
func faultedEvent(r *locRun) *fsEvent {
	if !r.Faulted || r.Fault < 0 || r.Fault >= len(r.Trace) {
		return nil
	}
	return &r.Trace[r.Fault]
}

// laws18 evaluates the property's laws on one run of the implementation.
func laws18(r *Run, t *tree18, tb *tables18, g geo18, initial []fsEntry, run *locRun, origBuild *string, origErr *error, built *bool) {
	rp := replay18{Tree: t, Fault: run.Fault}
	viol := func(law, class, detail string) {
		r.Violation(OracleViolation{Law: law, Class: class, Detail: detail, Replay: rp})
	}
	if len(run.Unexpected) > 0 {
		viol("model-coverage", "C18/unexpected-fs-operation", strings.Join(run.Unexpected, "; "))
	}
	fe := faultedEvent(run)
	// a fault on Exists / IsDir is a FALSE ANSWER the localizer cannot detect (the call has no error
	// result): confinement and all-or-nothing still apply; the laws about a successful copy, and about
	// a destination that already existed, are out of domain for that run
	lied := fe != nil && (fe.Op == "Exists" || fe.Op == "IsDir")
	// ---- (0) a tree that is valid by construction must localize when nothing fails
	if run.Fault < 0 && t.ExpectOk {
		if run.Cls != kOk {
			viol("equivalent", "C18/valid-tree-rejected", fmt.Sprintf("every reference of the tree is local, in scope and outside newDir, yet localize ended with %s: %.300s", run.Cls, run.Msg))
		} else {
			r.Count("law", "valid-tree-accepted")
		}
	}
	// ---- (1) writes confined, (2) source unchanged: domain = newDir's parent is an existing directory
	if g.parentOK {
		for _, e := range run.Trace {
			switch e.Op {
			case "Mkdir", "MkdirAll", "WriteFile":
				if !insideDir(g.absNewDir, lexAbs(e.Path)) {
					viol("writes_confined", "C18/write-outside:"+e.Op, fmt.Sprintf("%s %q is outside newDir %q (fault %d)", e.Op, e.Path, g.absNewDir, run.Fault))
				}
			case "RemoveAll":
				// (RemoveAll("") was the no-op of the createNewDir defect repaired by d268200)
				if e.Path == "" || lexAbs(e.Path) != g.absNewDir {
					viol("writes_confined", "C18/write-outside:RemoveAll", fmt.Sprintf("RemoveAll %q, newDir %q (fault %d)", e.Path, g.absNewDir, run.Fault))
				}
			}
		}
		var a, b []fsEntry
		for _, e := range initial {
			if (g.fresh || lied) && insideDir(g.absNewDir, e.Path) {
				continue
			}
			a = append(a, e)
		}
		for _, e := range run.Final {
			if (g.fresh || lied) && insideDir(g.absNewDir, e.Path) {
				continue
			}
			b = append(b, e)
		}
		if !sameListing(a, b) {
			viol("source_unchanged", "C18/source-modified", fmt.Sprintf("the tree outside newDir %q changed (fault %d, outcome %s)", g.absNewDir, run.Fault, run.Cls))
		}
		r.Count("law", "confined+source-unchanged")
	} else {
		r.Count("law", "skipped:newdir-parent-missing")
	}
	// ---- (3) all-or-nothing: domain = newDir did not exist before
	if g.fresh && run.Cls != kOk {
		left := run.inner.Exists(g.absNewDir)
		cleanupFaulted := fe != nil && fe.Op == "RemoveAll" && fe.Path != ""
		switch {
		case !left:
			r.Count("law", "all-or-nothing:held")
		case cleanupFaulted:
			r.Count("law", "all-or-nothing:out-of-domain(cleanup RemoveAll itself failed)")
		default:
			class := "C18/newdir-left:other:" + run.Cls
			if fe != nil {
				class += ":" + fe.Op
			}
			nReads, nMk := 0, 0
			for _, e := range run.Trace {
				if e.Op == "ReadFile" {
					nReads++
				}
				if e.Op == "MkdirAll" {
					nMk++
				}
			}
			last := run.Trace[len(run.Trace)-1]
			switch {
			case run.Cls == kErr && fe != nil && fe.Op == "CleanedAbs" && last.Op == "RemoveAll" && last.Path == "" && nReads == 0 && nMk == 0:
				class = "C18/newdir-left:createNewDir-confirm"
			case run.Cls == kErr && fe != nil && fe.Op == "MkdirAll" && nMk == 1 && nReads == 0 && last == *fe:
				class = "C18/newdir-left:mkdirall-dst"
			case run.Cls == kFatal && strings.Contains(run.Msg, "cannot clean validated file path"):
				class = "C18/newdir-left:fatal-cleanedRelativePath"
			case run.Cls == kPanic && strings.Contains(run.Msg, "unable to establish validated root reference"):
				class = "C18/newdir-left:panic-localizeRoot-confirm"
			case run.Cls == kPanic && strings.Contains(run.Msg, "unable to confirm validated directory"):
				class = "C18/newdir-left:panic-copyChartHome-confirm"
			}
			viol("all_or_nothing", class, fmt.Sprintf("newDir %q left behind after %s (fault %d at %v): %.160s", g.absNewDir, run.Cls, run.Fault, fe, run.Msg))
			r.Count("law", "all-or-nothing:"+class)
		}
	}
	if run.Cls != kOk {
		return
	}
	// ---- successful runs
	if lied {
		r.Count("law", "success-laws:out-of-domain(undetectable false answer of Exists/IsDir)")
		return
	}
	if fe != nil && fe.Op == "WriteFile" {
		// every WriteFile of the localizer writes a file the copy needs: a failed one can never be ignored
		viol("all_or_nothing", "C18/success-despite-failed-write",
			fmt.Sprintf("localize reported success although WriteFile %q failed (fault %d)", fe.Path, run.Fault))
	}
	// chart homes of every localized root are mirrored completely (files; empty directories are not
	// checked: kyaml's in-memory Walk drops the error a directory callback returns)
	for rootDir, homes := range chartHomes18(t, buildFS18(t)) {
		relRoot, err := filepath.Rel(g.absScope, rootDir)
		if err != nil || strings.HasPrefix(relRoot, "..") {
			continue
		}
		localized := false
		for _, kn := range []string{"kustomization.yaml", "kustomization.yml", "Kustomization"} {
			if run.inner.Exists(filepath.Join(g.absNewDir, relRoot, kn)) {
				localized = true
			}
		}
		if !localized {
			continue
		}
		for _, src := range homes {
			relHome, err := filepath.Rel(g.absScope, src)
			if err != nil || strings.HasPrefix(relHome, "..") {
				continue
			}
			walked := false
			for _, e := range run.Trace {
				if e.Op == "Walk" && lexAbs(e.Path) == src {
					walked = true
				}
			}
			for _, e := range initial {
				if e.IsDir || !insideDir(src, e.Path) {
					continue
				}
				rel, _ := filepath.Rel(g.absScope, e.Path)
				mirror := filepath.Join(g.absNewDir, rel)
				b, rerr := run.inner.ReadFile(mirror)
				if rerr == nil && string(b) == e.Content {
					continue
				}
				class := "C18/incomplete-copy:chart-home"
				if !walked {
					class = "C18/incomplete-copy:chart-home-dst-exists"
				}
				viol("equivalent", class, fmt.Sprintf("localize succeeded (fault %d at %v) but chart home file %q is missing or different at %q", run.Fault, fe, e.Path, mirror))
				break
			}
			r.Count("law", "chart-home-mirrored:checked")
		}
	}
	if run.Dst != g.absNewDir {
		viol("equivalent", "C18/returned-path", fmt.Sprintf("returned %q, newDir is %q", run.Dst, g.absNewDir))
	}
	// (5) kustomization files differ only in path fields; (6) copies are byte-identical, mirrored
	for _, e := range run.Final {
		if e.IsDir || !insideDir(g.absNewDir, e.Path) {
			continue
		}
		rel, _ := filepath.Rel(g.absNewDir, e.Path)
		src := filepath.Join(g.absScope, rel)
		srcContent, have := t.Files[src]
		if !have {
			viol("equivalent", "C18/copy-without-source", fmt.Sprintf("%q has no source at the mirrored path %q", e.Path, src))
			continue
		}
		if isKustName(filepath.Base(e.Path)) {
			k1, ok1 := parseKust18([]byte(srcContent))
			k2, ok2 := parseKust18([]byte(e.Content))
			if ok1 && ok2 {
				blankPaths(k1)
				blankPaths(k2)
				if !reflect.DeepEqual(k1, k2) {
					viol("equivalent", "C18/kustomization-nonpath-changed", fmt.Sprintf("%q differs from %q in a non-path field", e.Path, src))
				}
				continue
			}
		}
		if tb.plugAt[src] {
			continue
		}
		if srcContent != e.Content {
			viol("equivalent", "C18/copy-differs", fmt.Sprintf("%q is not byte-identical to %q", e.Path, src))
		}
	}
	// (4) build equivalence
	if !*built {
		*built = true
		o, err := build18(buildFS18(t), g.absTarget)
		*origBuild, *origErr = o, err
	}
	if *origErr != nil {
		r.Count("law", "equivalent:skipped(original does not build)")
		return
	}
	relT, _ := filepath.Rel(g.absScope, g.absTarget)
	lb, lerr := build18(run.inner, filepath.Join(g.absNewDir, relT))
	switch {
	case lerr != nil:
		viol("equivalent", "C18/localized-build-fails", fmt.Sprintf("original builds, localized copy does not: %.200s", lerr.Error()))
	case lb != *origBuild:
		viol("equivalent", "C18/build-differs", "build output of the localized copy differs from the original's")
	default:
		r.Count("law", "equivalent:builds-identical")
	}
}

// ---------- on-disk subprocess: the log.Fatalf exit is real there ----------

func ondisk18(t *tree18, fault int) (exited bool, left bool, detail string) {
	base, err := os.MkdirTemp("", "c18-ondisk-")
	if err != nil {
		return false, false, err.Error()
	}
	defer os.RemoveAll(base)
	base, _ = filepath.EvalSymlinks(base)
	for _, d := range t.Dirs {
		_ = os.MkdirAll(filepath.Join(base, d), 0o755)
	}
	for p, c := range t.Files {
		_ = os.MkdirAll(filepath.Join(base, filepath.Dir(p)), 0o755)
		_ = os.WriteFile(filepath.Join(base, p), []byte(c), 0o644)
	}
	rp := replay18{Tree: t, Fault: fault, Mode: "ondisk", Base: base}
	data, _ := json.Marshal(map[string]interface{}{"case": rp})
	rf := filepath.Join(base, "replay.json")
	_ = os.WriteFile(rf, data, 0o644)
	exe, err := os.Executable()
	if err != nil {
		return false, false, err.Error()
	}
	cmd := exec.Command(exe, "-replay", rf, "C18")
	out, _ := cmd.CombinedOutput()
	returned := strings.Contains(string(out), "ONDISK-RETURNED")
	_, statErr := os.Stat(filepath.Join(base, lexAbs(t.NewDir)))
	return !returned, statErr == nil, strings.TrimSpace(string(out))
}

func ondiskChild18(rp replay18) (bool, string, error) {
	t := rp.Tree
	ffs := newFaultFS(filesys.MakeFsOnDisk(), rp.Fault)
	scope := ""
	if t.Scope != "" {
		scope = filepath.Join(rp.Base, t.Scope)
	}
	// log.Fatalf inside the localizer terminates this process here.
	dst, err := localizer.Run(ffs, filepath.Join(rp.Base, t.Target), scope, filepath.Join(rp.Base, t.NewDir))
	return false, fmt.Sprintf("ONDISK-RETURNED dst=%q err=%v", dst, err), nil
}

// ---------- driver ----------

func absArgs(t *tree18) bool {
	return filepath.IsAbs(t.Target) && (t.Scope == "" || filepath.IsAbs(t.Scope)) && filepath.IsAbs(t.NewDir)
}

func processTree18(r *Run, t *tree18, toModel bool, ondiskBudget *int) {
	curTree18 = t
	initialFS := buildFS18(t)
	initial := snapshot(initialFS)
	g := geometry18(t, initialFS)
	tb := makeTables18(t)
	for _, tg := range t.Tags {
		r.Count("injected", tg)
	}
	if len(t.Tags) == 0 {
		r.Count("injected", "none")
	}
	for _, k := range tb.kusts {
		nMap := 0
		cnt := func(name string, n int, isMap bool) {
			if n > 0 {
				r.Count("field", name)
				if isMap {
					nMap++
				}
			}
		}
		if _, ok := k.OpenAPI["path"]; ok {
			r.Count("field", "openapi.path")
		}
		cnt("bases", len(k.Bases), true) //nolint:staticcheck
		cnt("components", len(k.Components), true)
		cnt("configurations", len(k.Configurations), true)
		cnt("crds", len(k.Crds), true)
		cnt("resources", len(k.Resources), true)
		cnt("configMapGenerator", len(k.ConfigMapGenerator), false)
		cnt("secretGenerator", len(k.SecretGenerator), false)
		cnt("patches", len(k.Patches), false)
		cnt("patchesJson6902", len(k.PatchesJson6902), false) //nolint:staticcheck
		cnt("patchesStrategicMerge", len(k.PatchesStrategicMerge), false) //nolint:staticcheck
		cnt("replacements", len(k.Replacements), false)
		cnt("generators", len(k.Generators), false)
		cnt("transformers", len(k.Transformers), false)
		cnt("validators", len(k.Validators), false)
		r.Count("map-ranged-fields-per-root", fmt.Sprint(nMap))
	}
	for _, refs := range tb.plugs {
		for _, x := range refs {
			r.Count("plugin-ref", x.Kind)
		}
	}
	r.Count("roots", fmt.Sprint(len(tb.kusts)))
	base := runLoc18(t, -1)
	r.Count("outcome-no-fault", base.Cls)
	r.Count("trace-length", fmt.Sprintf("%02d-%02d", len(base.Trace)/20*20, len(base.Trace)/20*20+19))
	runs := []*locRun{base}
	for i := 0; i < base.NFallible; i++ {
		runs = append(runs, runLoc18(t, i))
	}
	var origBuild string
	var origErr error
	built := false
	writes := 0
	for _, e := range base.Trace {
		if e.Op == "WriteFile" && e.Ok {
			writes++
		}
	}
	fatalAt := -1
	for _, run := range runs {
		if run.Fault >= 0 {
			r.Count("outcome-faulted", run.Cls)
			if fe := faultedEvent(run); fe != nil {
				r.Count("faulted-op", fe.Op)
			}
			if run.Cls == kFatal && fatalAt < 0 {
				fatalAt = run.Fault
			}
		}
		laws18(r, t, tb, g, initial, run, &origBuild, &origErr, &built)
		r.AddEval(fmt.Sprintf("%v|%d", t.Files, run.Fault), writes > 0)
	}
	// the fatal exit, for real: subprocess on the on-disk file system
	if fatalAt >= 0 && *ondiskBudget > 0 && absArgs(t) && g.fresh && g.parentOK {
		*ondiskBudget--
		exited, left, detail := ondisk18(t, fatalAt)
		switch {
		case exited && left:
			r.Count("ondisk-subprocess", "process exited in log.Fatalf, newDir left on disk")
			r.Violation(OracleViolation{Law: "all_or_nothing", Class: "C18/newdir-left:fatal-cleanedRelativePath",
				Detail: fmt.Sprintf("on-disk subprocess: fault %d terminated the process (log.Fatalf) and left %q behind: %.200s", fatalAt, t.NewDir, detail),
				Replay: replay18{Tree: t, Fault: fatalAt}})
		case exited:
			r.Count("ondisk-subprocess", "process exited, newDir absent")
		default:
			r.Count("ondisk-subprocess", "not reproduced on disk (operation sequence differs)")
		}
	}
	for _, homes := range chartHomes18(t, initialFS) {
		for _, h := range homes {
			if insideDir(h, g.absNewDir) && tb.inModel {
				tb.inModel, tb.why = false, "newDir inside a chart home"
			}
		}
	}
	if !tb.inModel {
		r.Meta.Skipped++
		r.Count("model", "skipped:"+tb.why)
		return
	}
	if !toModel {
		return
	}
	term, ok := caseTerm18(t, tb, initial, g, runs)
	if !ok {
		r.Meta.Skipped++
		r.Count("model", "skipped:unprintable trace")
		return
	}
	r.Count("model", "sent")
	r.Count("model-runs", "total")
	r.Meta.Distribution["model-runs"]["total"] += len(runs) - 1
	r.AddCase(term, replay18{Tree: t, Fault: -1}, writes > 0)
}

func runC18(r *Run, rng *Rng, tier string) error {
	// NewRng(seed) and Next() advance by the same constant, so the raw streams of seeds n and n+1 are
	// shifted copies of each other; forking once decorrelates them (the fork state is a mixed output)
	rng = rng.Fork()
	r.shard = 1
	nTrees := 20
	ondisk := 3
	if tier == "thorough" {
		nTrees = 160
		ondisk = 10
		r.shard = 2
	}
	r.Meta.Rule = "local trees: 1-3 kustomization roots (Kustomization/Component; via resources/bases/components) inside a scope, " +
		"files referenced from openapi.path, configurations, crds, resources, configMapGenerator/secretGenerator files/envs/env, patches, " +
		"patchesJson6902, patchesStrategicMerge (file+inline), replacements, generators/transformers/validators plugin files with their own " +
		"references; path spellings ./x, zz/../x, d//x, absolute, ../root/x; injected invalid references/arguments (see distribution 'injected'); " +
		"every tree is localized with no fault and with a fault at EVERY fallible file-system operation. non-trivial = the fault-free run wrote at least one file"
	for _, t := range loadCorpus18() {
		budget := 1
		processTree18(r, t, true, &budget)
	}
	runDisk18(r)
	maxTrace := 110
	if tier == "thorough" {
		maxTrace = 180
	}
	for i := 0; i < nTrees; i++ {
		// rejection sampling on size keeps the quick tier inside its time budget (every tree costs
		// (#fallible operations)^2 model steps); the draw is still a function of the seed only
		var t *tree18
		for tries := 0; tries < 20; tries++ {
			t = genTree18(rng.Fork())
			if len(runLoc18(t, -1).Trace) <= maxTrace {
				break
			}
			r.Count("generator", "resampled:too-large")
		}
		processTree18(r, t, true, &ondisk)
	}
	r.Meta.Exhaustive = false
	r.Meta.Notes = append(r.Meta.Notes, "one model case = one tree with all of its fault runs (see distribution model-runs for the number of compared runs)")
	return nil
}

func loadCorpus18() []*tree18 {
	var out []*tree18
	files, _ := filepath.Glob(filepath.Join(verifRoot(), "corpus", "C18", "*.json"))
	sort.Strings(files)
	for _, f := range files {
		data, err := os.ReadFile(f)
		if err != nil {
			continue
		}
		var rp replay18
		if json.Unmarshal(data, &rp) == nil && rp.Tree != nil {
			out = append(out, rp.Tree)
		}
	}
	return out
}

// knownClasses18 reads the finding classes recorded for C18 (known-findings.txt, findings.d/*.txt).
func knownClasses18() map[string]bool {
	out := map[string]bool{}
	files, _ := filepath.Glob(filepath.Join(verifRoot(), "findings.d", "*.txt"))
	files = append(files, filepath.Join(verifRoot(), "known-findings.txt"))
	for _, f := range files {
		data, err := os.ReadFile(f)
		if err != nil {
			continue
		}
		for _, line := range strings.Split(string(data), "\n") {
			line = strings.TrimSpace(line)
			if !strings.HasPrefix(line, "finding:") || !strings.Contains(line, "property=C18 ") {
				continue
			}
			for _, w := range strings.Fields(line) {
				if strings.HasPrefix(w, "class=") {
					out[strings.TrimPrefix(w, "class=")] = true
				}
			}
		}
	}
	return out
}

// replayC18 re-runs a recorded input on the implementation and evaluates every law oracle.
//   - a replay of an ORACLE violation (kind "oracle", a specific fault index): that run only; violated
//     when any law fails (so a known finding still shows as failing);
//   - a replay of a CASE (kind "case": model and implementation disagree; or C18_ALL_FAULTS=1): the
//     fault-free run and EVERY fault index; violated when a law fails with a class that is not a
//     recorded finding — the disagreement then comes with a concrete failing input.
func replayC18(path string) (bool, string, error) {
	data, err := os.ReadFile(path)
	if err != nil {
		return false, "", err
	}
	var wrap struct {
		Kind  string    `json:"kind"`
		Case  *replay18 `json:"case"`
		Tree  *tree18   `json:"tree"`
		Fault *int      `json:"fault"`
	}
	if err := json.Unmarshal(data, &wrap); err != nil {
		return false, "", err
	}
	rp := wrap.Case
	if rp == nil && wrap.Tree != nil {
		rp = &replay18{Tree: wrap.Tree, Fault: -1}
		if wrap.Fault != nil {
			rp.Fault = *wrap.Fault
		}
	}
	if rp == nil || rp.Tree == nil {
		return false, "", fmt.Errorf("no C18 case in %s", path)
	}
	if rp.Mode == "ondisk" {
		return ondiskChild18(*rp)
	}
	t := rp.Tree
	curTree18 = t
	initialFS := buildFS18(t)
	initial := snapshot(initialFS)
	g := geometry18(t, initialFS)
	tb := makeTables18(t)
	r := NewRun("C18", "replay", 0, "", "")
	var b strings.Builder
	allFaults := wrap.Kind == "case" || os.Getenv("C18_ALL_FAULTS") != ""
	faults := []int{rp.Fault}
	if allFaults {
		base := runLoc18(t, -1)
		faults = []int{-1}
		for i := 0; i < base.NFallible; i++ {
			faults = append(faults, i)
		}
	}
	var ob string
	var oe error
	built := false
	for _, f := range faults {
		run := runLoc18(t, f)
		laws18(r, t, tb, g, initial, run, &ob, &oe, &built)
		fmt.Fprintf(&b, "target=%q scope=%q newDir=%q fault=%d faulted=%v outcome=%s dst=%q msg=%.200s\n", t.Target, t.Scope, t.NewDir, f, run.Faulted, run.Cls, run.Dst, run.Msg)
		fmt.Fprintf(&b, "newDir %q exists afterwards: %v\n", g.absNewDir, run.inner.Exists(g.absNewDir))
		if !allFaults || f < 0 {
			for i, e := range run.Trace {
				fmt.Fprintf(&b, "  %3d %-10s %-50s %v\n", i, e.Op, e.Path, e.Ok)
			}
		}
	}
	known := map[string]bool{}
	if allFaults {
		known = knownClasses18()
	}
	violated := false
	var tail, fresh strings.Builder
	for _, v := range r.Meta.Violations {
		if known[v.Class] {
			fmt.Fprintf(&tail, "law %s violated, class %s (recorded finding): %s\n", v.Law, v.Class, v.Detail)
		} else {
			violated = true
			fmt.Fprintf(&fresh, "law %s violated, class %s: %s\n", v.Law, v.Class, v.Detail)
		}
	}
	tail.WriteString(fresh.String())
	// the verdict lines go last: the caller keeps only the tail of the output
	return violated, b.String() + tail.String(), nil
}
