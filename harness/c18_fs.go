package main

import (
	"fmt"
	"os"
	"path/filepath"
	"runtime"
	"sort"
	"strings"

	"sigs.k8s.io/kustomize/kyaml/filesys"
)

// C18: recording, fault-injecting wrapper around filesys.FileSystem.
//
// Every call made through the FileSystem interface is recorded as (op, path, ok).
// EVERY call is numbered 0,1,2,… (its index in the trace); when the number of a call equals faultAt
// it fails WITHOUT touching the underlying file system: a call that can return an error returns
// one; Exists and IsDir, which cannot report failure, answer false (a failed stat reads as "no").

type fsEvent struct {
	Op   string `json:"op"`
	Path string `json:"path"`
	Ok   bool   `json:"ok"`
}

type errInjected struct{ n int }

func (e errInjected) Error() string { return fmt.Sprintf("injected fault at file-system call %d", e.n) }

type faultFS struct {
	filesys.FileSystem // the wrapped file system; unlisted methods are forwarded unrecorded (none are used)
	faultAt            int // -1: never
	nFallible          int
	trace              []fsEvent
	faulted            bool
	unexpected         []string // operations the model has no effect for (Create/Open/Glob/ReadDir)
}

func newFaultFS(inner filesys.FileSystem, faultAt int) *faultFS {
	return &faultFS{FileSystem: inner, faultAt: faultAt}
}

// fallible returns an injected error when this fallible operation is the chosen one.
func (f *faultFS) fallible() error {
	n := f.nFallible
	f.nFallible++
	if n == f.faultAt {
		f.faulted = true
		return errInjected{n}
	}
	return nil
}

func (f *faultFS) rec(op, path string, ok bool) {
	f.trace = append(f.trace, fsEvent{op, path, ok})
}

func (f *faultFS) Mkdir(path string) error {
	if err := f.fallible(); err != nil {
		f.rec("Mkdir", path, false)
		return err
	}
	err := f.FileSystem.Mkdir(path)
	f.rec("Mkdir", path, err == nil)
	return err
}

func (f *faultFS) MkdirAll(path string) error {
	if err := f.fallible(); err != nil {
		f.rec("MkdirAll", path, false)
		return err
	}
	err := f.FileSystem.MkdirAll(path)
	f.rec("MkdirAll", path, err == nil)
	return err
}

func (f *faultFS) RemoveAll(path string) error {
	if err := f.fallible(); err != nil {
		f.rec("RemoveAll", path, false)
		return err
	}
	err := f.FileSystem.RemoveAll(path)
	f.rec("RemoveAll", path, err == nil)
	return err
}

func (f *faultFS) CleanedAbs(path string) (filesys.ConfirmedDir, string, error) {
	if err := f.fallible(); err != nil {
		f.rec("CleanedAbs", path, false)
		return "", "", err
	}
	d, n, err := f.FileSystem.CleanedAbs(path)
	f.rec("CleanedAbs", path, err == nil)
	return d, n, err
}

func (f *faultFS) ReadFile(path string) ([]byte, error) {
	if err := f.fallible(); err != nil {
		f.rec("ReadFile", path, false)
		return nil, err
	}
	b, err := f.FileSystem.ReadFile(path)
	f.rec("ReadFile", path, err == nil)
	return b, err
}

func (f *faultFS) WriteFile(path string, data []byte) error {
	if err := f.fallible(); err != nil {
		f.rec("WriteFile", path, false)
		return err
	}
	err := f.FileSystem.WriteFile(path, data)
	f.rec("WriteFile", path, err == nil)
	return err
}

func (f *faultFS) Walk(path string, walkFn filepath.WalkFunc) error {
	if err := f.fallible(); err != nil {
		f.rec("Walk", path, false)
		return err
	}
	// the walk itself is one effect; the callback's own operations are recorded as they happen.
	// The event is recorded BEFORE the callbacks run, with ok = "the start node exists".
	ok := f.FileSystem.Exists(path)
	f.rec("Walk", path, ok)
	return f.FileSystem.Walk(path, walkFn)
}

func (f *faultFS) Exists(path string) bool {
	if err := f.fallible(); err != nil {
		f.rec("Exists", path, false)
		return false
	}
	b := f.FileSystem.Exists(path)
	f.rec("Exists", path, b)
	return b
}

func (f *faultFS) IsDir(path string) bool {
	if err := f.fallible(); err != nil {
		f.rec("IsDir", path, false)
		return false
	}
	b := f.FileSystem.IsDir(path)
	f.rec("IsDir", path, b)
	return b
}

func (f *faultFS) ReadDir(path string) ([]string, error) {
	f.unexpected = append(f.unexpected, "ReadDir "+path)
	return f.FileSystem.ReadDir(path)
}

func (f *faultFS) Glob(pattern string) ([]string, error) {
	f.unexpected = append(f.unexpected, "Glob "+pattern)
	return f.FileSystem.Glob(pattern)
}

func (f *faultFS) Create(path string) (filesys.File, error) {
	f.unexpected = append(f.unexpected, "Create "+path)
	return f.FileSystem.Create(path)
}

func (f *faultFS) Open(path string) (filesys.File, error) {
	f.unexpected = append(f.unexpected, "Open "+path)
	return f.FileSystem.Open(path)
}

// ---------- log.Fatalf interception ----------
//
// localizer calls log.Fatalf (= logger output, then os.Exit(1)).  The standard logger's writer is
// replaced by one that, when it is called from log.Fatal*, records the message and ends the
// GOROUTINE with runtime.Goexit — before os.Exit is reached.  Like os.Exit this reaches no
// `recover()` (deferred functions run, but recover returns nil in them, so a deferred
// recover-and-clean-up such as the one in localizer.Run does NOT fire, exactly as on a real exit);
// every other log line is dropped.  runTrapped runs the localizer in its own goroutine and
// classifies the outcome.  (The defect is additionally reproduced in a real subprocess on the
// on-disk file system, where the process does exit.)

var fatalMsg18 string

type fatalTrap struct{}

func (fatalTrap) Write(p []byte) (int, error) {
	pcs := make([]uintptr, 16)
	n := runtime.Callers(2, pcs)
	frames := runtime.CallersFrames(pcs[:n])
	for {
		fr, more := frames.Next()
		if fr.Function == "log.Fatalf" || fr.Function == "log.Fatal" || fr.Function == "log.Fatalln" {
			fatalMsg18 = strings.TrimSpace(string(p))
			runtime.Goexit()
		}
		if !more {
			break
		}
	}
	return len(p), nil
}

// runTrapped runs f in a goroutine of its own: outcome class (kOk / kErr / kFatal / kPanic) + message.
func runTrapped(f func() error) (cls, msg string) {
	done := make(chan struct{})
	fatalMsg18 = ""
	finished := false
	go func() {
		defer close(done)
		defer func() {
			if rec := recover(); rec != nil {
				cls, msg = kPanic, fmt.Sprint(rec)
				finished = true
			}
		}()
		if err := f(); err != nil {
			cls, msg = kErr, err.Error()
		} else {
			cls = kOk
		}
		finished = true
	}()
	<-done
	if !finished {
		// the goroutine ended without returning and without panicking: Goexit from the trap
		cls, msg = kFatal, fatalMsg18
	}
	return cls, msg
}

// ---------- snapshots of an in-memory file system ----------

type fsEntry struct {
	Path    string
	IsDir   bool
	Content string
}

// snapshot lists every node of the (unwrapped) file system below "/", sorted by path.
func snapshot(fsys filesys.FileSystem) []fsEntry {
	var out []fsEntry
	_ = fsys.Walk("/", func(path string, info os.FileInfo, err error) error {
		if err != nil {
			return nil
		}
		if path == "/" {
			return nil
		}
		if info.IsDir() {
			out = append(out, fsEntry{Path: path, IsDir: true})
		} else {
			b, _ := fsys.ReadFile(path)
			out = append(out, fsEntry{Path: path, Content: string(b)})
		}
		return nil
	})
	sort.Slice(out, func(i, j int) bool { return out[i].Path < out[j].Path })
	return out
}

func insideDir(dir, p string) bool {
	return p == dir || strings.HasPrefix(p, strings.TrimSuffix(dir, "/")+"/")
}
