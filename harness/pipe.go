package main

// PIPE — correspondence between krusty.Run and the integrated pipeline model (coq/theories/Res/Pipeline.v).
//
// Generated kustomization trees (1-3 layers, ~18 kinds incl. custom kinds, cross references whose row and
// field spec are drawn from the name-reference rule table of the running implementation, namespace / namePrefix /
// nameSuffix / labels / commonLabels / commonAnnotations / configMapGenerator / secretGenerator per layer,
// sortOptions at the top) are built by krusty.MakeKustomizer(krusty.MakeDefaultOptions()).Run on an in-memory
// file system; the same abstract tree is sent to the model. Compared: see Corr/PIPE.v.
//
// Domain restrictions of the generator (each is a stated scope limit of the model, design.d/PIPE.md):
//   patches: only strategic-merge entries (pipe_patches.go; no JSON6902, no patchesStrategicMerge / patchesJson6902,
//   no allowNameChange / allowKindChange), no replacements / vars / components / configurations / helm / plugins,
//   generators with literal, env-file and file sources (all behaviours, generatorOptions, binaryData), no immutable;
//   no `kind: List`, no empty documents, no anchors, no comments,
//   no internal.config.kubernetes.io annotations in inputs, no ',' in names (PrevIds panic, C12 finding).
//
// Law oracles evaluated on the implementation (the implementation-side counterparts of the PIPE theorems):
//   hygiene (no internal annotation in any output), tracer multiset (every input document exactly once),
//   wrap (build(wrap T) is byte-identical to build(T)).

import (
	"encoding/json"
	"fmt"
	"io"
	"log"
	"os"
	"sort"
	"strings"

	"sigs.k8s.io/kustomize/api/krusty"
	"sigs.k8s.io/kustomize/api/resmap"
	"sigs.k8s.io/kustomize/api/types"
	"sigs.k8s.io/kustomize/kyaml/filesys"
	"sigs.k8s.io/kustomize/kyaml/resid"
	kutils "sigs.k8s.io/kustomize/kyaml/utils"
	kyaml "sigs.k8s.io/kustomize/kyaml/yaml"
	syaml "sigs.k8s.io/yaml"
)

func init() {
	register("PIPE", propDef{
		header: "From KV Require Import Corr.PIPE.\nFrom KV Require Labels Res.Replica Res.Image Res.Selector.\nFrom KV Require Import Corr.SchemaTable.\nFrom KV Require Gen.LegacyOrder.\n" +
			"Open Scope string_scope.\n",
		caseType:   "casePIPE",
		mismatchFn: "mismatchesPIPE",
		run:        runPIPE,
		replay:     replayPIPE,
	})
}

const pipeTracer = "verif.pipe/id"

// ---------------------------------------------------------------- abstract tree

type pipeLabel struct {
	Pairs            map[string]string `json:"pairs"`
	IncludeSelectors bool              `json:"includeSelectors"`
	IncludeTemplates bool              `json:"includeTemplates"`
	Fields           []pipeFS          `json:"fields,omitempty"`
}

// one custom field spec of a labels entry (labels[].fields)
type pipeFS struct {
	Group   string `json:"group,omitempty"`
	Version string `json:"version,omitempty"`
	Kind    string `json:"kind,omitempty"`
	Path    string `json:"path"`
	Create  bool   `json:"create,omitempty"`
}

var pipeFieldPool = []pipeFS{
	{Path: "spec/extra/lbl", Create: true},
	{Kind: "Widget", Path: "spec/selector/matchLabels"},
	{Kind: "Deployment", Path: "spec/template/metadata/labels"}, // create=false: conflicts with the default row
	{Group: "example.com", Kind: "Widget", Path: "spec/podLabels", Create: true},
	{Path: "metadata/labels", Create: true},
	{Kind: "Service", Version: "v1", Path: "spec/selector", Create: true},
	{Kind: "Gadget", Path: "spec/extra"},
}

// an env file / a file source of a generator: path relative to the kustomization, content (bytes: base64 in JSON)
type pipeSrc struct {
	Spec    string `json:"spec"` // file sources: "key=path" or "path"; env files: the path
	Path    string `json:"path"`
	Content []byte `json:"content"`
}

type pipeGenSpec struct {
	Name        string            `json:"name"`
	Namespace   string            `json:"namespace"`
	Behavior    string            `json:"behavior"`
	Literals    []string          `json:"literals"`
	Type        string            `json:"type"`
	HasOpts     bool              `json:"hasOpts"`
	Labels      map[string]string `json:"labels"`
	Annos       map[string]string `json:"annotations"`
	DisableHash bool              `json:"disableHash"`
	Envs        []pipeSrc         `json:"envs,omitempty"`
	FileSrcs    []pipeSrc         `json:"fileSrcs,omitempty"`
}

// generatorOptions: of one kustomization
type pipeGenOpts struct {
	Labels      map[string]string `json:"labels"`
	Annos       map[string]string `json:"annotations"`
	DisableHash bool              `json:"disableHash"`
}

// replicas: / images: entries of one kustomization
type pipeReplica struct {
	Name  string `json:"name"`
	Count int64  `json:"count"`
}
type pipeImage struct {
	Name      string `json:"name"`
	NewName   string `json:"newName,omitempty"`
	TagSuffix string `json:"tagSuffix,omitempty"`
	NewTag    string `json:"newTag,omitempty"`
	Digest    string `json:"digest,omitempty"`
}

type pipeFile struct {
	Name string   `json:"name"`
	Docs []string `json:"docs"` // YAML text of each document
}

type pipeEnt struct {
	File *pipeFile `json:"file,omitempty"`
	Dir  *pipeDir  `json:"dir,omitempty"`
}

type pipeDir struct {
	Name         string            `json:"name"`
	Ns           string            `json:"namespace"`
	Prefix       string            `json:"prefix"`
	Suffix       string            `json:"suffix"`
	Labels       []pipeLabel       `json:"labels"`
	CommonLabels map[string]string `json:"commonLabels"`
	CommonAnnos  map[string]string `json:"commonAnnotations"`
	CmGens       []pipeGenSpec     `json:"cmGens"`
	SecGens      []pipeGenSpec     `json:"secGens"`
	GenOpts      *pipeGenOpts      `json:"genOpts,omitempty"`
	Replicas     []pipeReplica     `json:"replicas,omitempty"`
	Images       []pipeImage       `json:"images,omitempty"`
	Patches      []pipePatch       `json:"patches,omitempty"`
	Ents         []*pipeEnt        `json:"ents"`
	parent       *pipeDir
	depth        int
}

type pipeCase struct {
	Top   *pipeDir          `json:"top"`
	Sort  string            `json:"sort"` // none | fifo | legacy | custom
	First []string          `json:"first"`
	Last  []string          `json:"last"`
	Files map[string]string `json:"files"`
	Root  string            `json:"root"`
	Shape string            `json:"shape"`
	Refs  int               `json:"refs"`
	Twins bool              `json:"twins"`
	Merges int              `json:"merges"`
	Locals int              `json:"locals"`
	Patches int `json:"patches"`
}

// ---------------------------------------------------------------- catalogue

type pipeKind struct {
	Kind, AV string
	Cluster  bool
}

var pipeKinds = []pipeKind{
	{"Deployment", "apps/v1", false}, {"StatefulSet", "apps/v1", false}, {"DaemonSet", "apps/v1", false},
	{"Job", "batch/v1", false}, {"CronJob", "batch/v1", false}, {"Pod", "v1", false},
	{"Service", "v1", false}, {"ConfigMap", "v1", false}, {"Secret", "v1", false}, {"ServiceAccount", "v1", false},
	{"PersistentVolumeClaim", "v1", false},
	{"Role", "rbac.authorization.k8s.io/v1", false}, {"RoleBinding", "rbac.authorization.k8s.io/v1", false},
	{"ClusterRole", "rbac.authorization.k8s.io/v1", true}, {"ClusterRoleBinding", "rbac.authorization.k8s.io/v1", true},
	{"Ingress", "networking.k8s.io/v1", false}, {"HorizontalPodAutoscaler", "autoscaling/v2", false},
	{"Namespace", "v1", true}, {"Widget", "example.com/v1", false}, {"Gadget", "stable.example.org/v1beta1", false},
}

func pipeKindInfo(kind string) (pipeKind, bool) {
	for _, k := range pipeKinds {
		if k.Kind == kind {
			return k, true
		}
	}
	return pipeKind{}, false
}

var pipeListSegs = map[string]bool{
	"containers": true, "initContainers": true, "env": true, "envFrom": true, "volumes": true, "sources": true,
	"imagePullSecrets": true, "rules": true, "paths": true, "tls": true, "webhooks": true,
	"volumeClaimTemplates": true,
}

var pipeNames = []string{"a", "b", "c", "web", "db", "cfg", "app", "x1"}
var pipePrefixes = []string{"p-", "q-", "dev-"}
var pipeSuffixes = []string{"-s", "-v2"}
var pipeNss = []string{"ns1", "ns2", "default"}
var pipeLabelKeys = []string{"app", "tier", "env", "team", "app.kubernetes.io/name"}
var pipeAdvValues = []string{"x", "web", "yes", "no", "on", "012", "1e3", "0x1F", "~", "null", "true", "1.5", "a b", "2001-01-01", "v1", "y"}

type pipeObj struct {
	ID    string
	Kind  string
	AV    string
	Name  string
	Ns    string
	Layer *pipeDir
	Doc   map[string]interface{}
	Gen   bool // placeholder for a generated ConfigMap / Secret (referent only)
}

type pipeGen struct {
	rng    *Rng
	rules  []krusty.VerifC03Rule
	objs   []*pipeObj
	dirs   []*pipeDir
	useNs  bool
	nextID int
	refs   int
	locals int
	srcN   int
}

func pipePodSpec(rng *Rng) map[string]interface{} {
	c := map[string]interface{}{"name": "main", "image": rng.Pick([]string{"nginx", "nginx:1.2", "busybox"})}
	if rng.Chance(30) {
		c["args"] = []interface{}{rng.Pick(pipeAdvValues), "b"}
	}
	return map[string]interface{}{"containers": []interface{}{c}}
}

func pipeAdv(rng *Rng) interface{} {
	switch rng.Intn(6) {
	case 0:
		return rng.Intn(100)
	case 1:
		return rng.Bool()
	case 2:
		return nil
	case 3:
		return []interface{}{rng.Pick(pipeAdvValues), rng.Intn(5)}
	default:
		return rng.Pick(pipeAdvValues)
	}
}

func (g *pipeGen) newObj(kind, av, name, ns string, layer *pipeDir) *pipeObj {
	rng := g.rng
	g.nextID++
	id := fmt.Sprintf("r%d", g.nextID)
	md := map[string]interface{}{"name": name}
	if ns != "" {
		md["namespace"] = ns
	}
	md["annotations"] = map[string]interface{}{pipeTracer: id}
	if rng.Chance(25) {
		md["labels"] = map[string]interface{}{rng.Pick(pipeLabelKeys): rng.Pick(pipeAdvValues)}
	}
	if rng.Chance(15) {
		md["annotations"].(map[string]interface{})["note"] = rng.Pick(pipeAdvValues)
	}
	if rng.Chance(7) {
		// IgnoreLocal: dropped at the end of the build unless the value is "false"
		md["annotations"].(map[string]interface{})["config.kubernetes.io/local-config"] = rng.Pick([]string{"true", "true", "false", "yes"})
		g.locals++
	}
	doc := map[string]interface{}{"apiVersion": av, "kind": kind, "metadata": md}
	app := rng.Pick(pipeNames)
	switch kind {
	case "Deployment", "StatefulSet", "DaemonSet", "Job":
		spec := map[string]interface{}{
			"template": map[string]interface{}{
				"metadata": map[string]interface{}{"labels": map[string]interface{}{"app": app}},
				"spec":     pipePodSpec(rng),
			},
		}
		if kind != "Job" || rng.Chance(30) {
			spec["selector"] = map[string]interface{}{"matchLabels": map[string]interface{}{"app": app}}
		}
		if kind == "Deployment" && rng.Chance(40) {
			spec["replicas"] = rng.Intn(4)
		}
		if kind == "StatefulSet" {
			spec["serviceName"] = rng.Pick(pipeNames)
		}
		doc["spec"] = spec
	case "CronJob":
		doc["spec"] = map[string]interface{}{
			"schedule": "* * * * *",
			"jobTemplate": map[string]interface{}{"spec": map[string]interface{}{
				"template": map[string]interface{}{
					"metadata": map[string]interface{}{"labels": map[string]interface{}{"app": app}},
					"spec":     pipePodSpec(rng),
				}}},
		}
	case "Pod":
		doc["spec"] = pipePodSpec(rng)
	case "Service":
		doc["spec"] = map[string]interface{}{
			"selector": map[string]interface{}{"app": app},
			"ports":    []interface{}{map[string]interface{}{"port": 80}},
		}
	case "ConfigMap":
		doc["data"] = map[string]interface{}{"k": rng.Pick(pipeAdvValues), "n": fmt.Sprint(rng.Intn(9))}
	case "Secret":
		doc["type"] = "Opaque"
		doc["stringData"] = map[string]interface{}{"pw": rng.Pick(pipeAdvValues)}
	case "PersistentVolumeClaim":
		doc["spec"] = map[string]interface{}{"accessModes": []interface{}{"ReadWriteOnce"}}
	case "Role", "ClusterRole":
		doc["rules"] = []interface{}{map[string]interface{}{
			"apiGroups": []interface{}{""}, "resources": []interface{}{"pods"}, "verbs": []interface{}{"get"}}}
	case "RoleBinding", "ClusterRoleBinding":
		rk := "Role"
		if kind == "ClusterRoleBinding" || rng.Chance(30) {
			rk = "ClusterRole"
		}
		doc["roleRef"] = map[string]interface{}{"apiGroup": "rbac.authorization.k8s.io", "kind": rk, "name": "ext-role"}
		if rng.Chance(50) {
			s := map[string]interface{}{"kind": "ServiceAccount", "name": rng.Pick([]string{"default", "ext-sa"})}
			if rng.Chance(50) {
				s["namespace"] = rng.Pick(pipeNss)
			}
			subj := []interface{}{s}
			if rng.Chance(30) {
				subj = append(subj, map[string]interface{}{"kind": "User", "name": "alice", "apiGroup": "rbac.authorization.k8s.io"})
			}
			doc["subjects"] = subj
		}
	case "Ingress":
		doc["spec"] = map[string]interface{}{}
	case "HorizontalPodAutoscaler":
		doc["spec"] = map[string]interface{}{"maxReplicas": 3}
	case "Namespace", "ServiceAccount":
	default: // custom kinds
		doc["spec"] = map[string]interface{}{"size": rng.Intn(5), "mode": rng.Pick(pipeAdvValues),
			"selector": map[string]interface{}{"matchLabels": map[string]interface{}{"app": app}}}
	}
	// content no directive targets
	if rng.Chance(50) {
		spec, _ := doc["spec"].(map[string]interface{})
		if spec == nil {
			spec = map[string]interface{}{}
			doc["spec"] = spec
		}
		spec["extra"] = map[string]interface{}{"v": pipeAdv(rng), "w": pipeAdv(rng)}
	}
	o := &pipeObj{ID: id, Kind: kind, AV: av, Name: name, Ns: ns, Layer: layer, Doc: doc}
	g.objs = append(g.objs, o)
	return o
}

func (g *pipeGen) pickNs(k pipeKind) string {
	if !g.useNs || k.Cluster {
		return ""
	}
	if g.rng.Chance(35) {
		return ""
	}
	return g.rng.Pick(pipeNss)
}

func pipeRuleSelects(group, version, kind, apiVersion, objKind string) bool {
	gg, v := resid.ParseGroupVersion(apiVersion)
	x := resid.Gvk{Group: gg, Version: v, Kind: objKind}
	return x.IsSelected(&resid.Gvk{Group: group, Version: version, Kind: kind})
}

// insertRef writes a reference to (refKind, name, refNs) at the field-spec path into doc.
func (g *pipeGen) insertRef(doc map[string]interface{}, path, name, refKind, refNs string) bool {
	rng := g.rng
	segs := kutils.PathSplitter(path, "/")
	cur := doc
	for i, s := range segs {
		last := i == len(segs)-1
		if !last {
			child, ok := cur[s]
			if !ok {
				m := map[string]interface{}{}
				if pipeListSegs[s] {
					cur[s] = []interface{}{m}
				} else {
					cur[s] = m
				}
				cur = m
				continue
			}
			switch c := child.(type) {
			case map[string]interface{}:
				cur = c
			case []interface{}:
				if rng.Chance(50) || len(c) == 0 {
					m := map[string]interface{}{}
					if s == "containers" || s == "initContainers" {
						m["name"] = fmt.Sprintf("c%d", len(c))
						m["image"] = "busybox"
					}
					cur[s] = append(c, m)
					cur = m
				} else {
					m, ok := c[rng.Intn(len(c))].(map[string]interface{})
					if !ok {
						return false
					}
					cur = m
				}
			default:
				return false
			}
			continue
		}
		switch {
		case s == "resourceNames":
			l, _ := cur[s].([]interface{})
			if _, exists := cur[s]; exists && l == nil {
				return false
			}
			cur[s] = append(l, name)
			if _, ok := cur["resources"]; !ok {
				cur["resources"] = []interface{}{"things"}
			}
			return true
		case path == "subjects":
			l, _ := cur[s].([]interface{})
			if _, exists := cur[s]; exists && l == nil {
				return false
			}
			m := map[string]interface{}{"kind": refKind, "name": name}
			if rng.Chance(75) {
				ns := refNs
				if ns == "" && rng.Chance(50) {
					ns = "default"
				}
				if ns != "" {
					m["namespace"] = ns
				}
			}
			cur[s] = append(l, m)
			return true
		case strings.HasSuffix(path, "clientConfig/service") || path == "spec/configSource/configMap":
			return false
		default:
			if _, exists := cur[s]; exists {
				if path != "roleRef/name" {
					return false
				}
			}
			cur[s] = name
			if path == "roleRef/name" {
				cur["kind"] = refKind
				cur["apiGroup"] = "rbac.authorization.k8s.io"
			}
			if strings.HasSuffix(path, "scaleTargetRef/name") {
				cur["kind"] = refKind
				if ki, ok := pipeKindInfo(refKind); ok {
					cur["apiVersion"] = ki.AV
				}
			}
			return true
		}
	}
	return false
}

// ancestors of a layer, itself first
func pipeChain(d *pipeDir) []*pipeDir {
	var out []*pipeDir
	for x := d; x != nil; x = x.parent {
		out = append(out, x)
	}
	return out
}

func (g *pipeGen) addEdge(b *pipeObj, external bool) bool {
	rng := g.rng
	var cands [][2]int
	for ri, r := range g.rules {
		if r.Kind != b.Kind {
			continue
		}
		for fi, fs := range r.Referrers {
			if _, ok := pipeKindInfo(fs.Kind); ok {
				cands = append(cands, [2]int{ri, fi})
			}
		}
	}
	if len(cands) == 0 {
		return false
	}
	c := cands[rng.Intn(len(cands))]
	fs := g.rules[c[0]].Referrers[c[1]]
	ki, _ := pipeKindInfo(fs.Kind)
	if !pipeRuleSelects(fs.Group, fs.Version, fs.Kind, ki.AV, ki.Kind) {
		return false
	}
	var a *pipeObj
	if rng.Chance(50) {
		var same []*pipeObj
		for _, o := range g.objs {
			if o.Kind == fs.Kind && !o.Gen && o != b {
				same = append(same, o)
			}
		}
		if len(same) > 0 {
			a = same[rng.Intn(len(same))]
		}
	}
	fresh := false
	if a == nil {
		ns := ""
		if g.useNs && !ki.Cluster {
			if rng.Chance(80) {
				ns = b.Ns
			} else {
				ns = g.pickNs(ki)
			}
		}
		// the referrer lives in the referent's layer, in one of its ancestors, or (rarely) anywhere
		layer := b.Layer
		switch rng.Intn(5) {
		case 0, 1:
			ch := pipeChain(b.Layer)
			layer = ch[rng.Intn(len(ch))]
		case 2:
			layer = g.dirs[rng.Intn(len(g.dirs))]
		}
		a = g.newObj(ki.Kind, ki.AV, g.freshName(ki.Kind), ns, layer)
		fresh = true
	}
	name := b.Name
	if external {
		name = fmt.Sprintf("ext-%d", rng.Intn(3))
	}
	if !g.insertRef(a.Doc, fs.Path, name, b.Kind, b.Ns) {
		if fresh {
			g.objs = g.objs[:len(g.objs)-1]
		}
		return false
	}
	g.refs++
	return true
}

func (g *pipeGen) freshName(kind string) string {
	rng := g.rng
	if rng.Chance(8) {
		return rng.Pick(pipeNames) // may collide: id-collision branch
	}
	for try := 0; try < 20; try++ {
		n := rng.Pick(pipeNames)
		if rng.Chance(30) {
			n = n + fmt.Sprint(rng.Intn(3))
		}
		used := false
		for _, o := range g.objs {
			if o.Kind == kind && o.Name == n {
				used = true
			}
		}
		if !used {
			return n
		}
	}
	return fmt.Sprintf("n%d", g.nextID)
}

func pipeRandPairs(rng *Rng, maxN int) map[string]string {
	n := 1 + rng.Intn(maxN)
	m := map[string]string{}
	for i := 0; i < n; i++ {
		m[rng.Pick(pipeLabelKeys)] = rng.Pick(pipeAdvValues)
	}
	return m
}

// binaryKey makes key k of the generator a file source with non-UTF-8 content (binaryData of a ConfigMap)
func (g *pipeGen) binaryKey(rng *Rng, s *pipeGenSpec, k string) {
	var lits []string
	for _, l := range s.Literals {
		if !strings.HasPrefix(l, k+"=") {
			lits = append(lits, l)
		}
	}
	s.Literals = lits
	var fs []pipeSrc
	for _, f := range s.FileSrcs {
		if !strings.HasPrefix(f.Spec, k+"=") {
			fs = append(fs, f)
		}
	}
	g.srcN++
	pth := fmt.Sprintf("b%d.bin", g.srcN)
	s.FileSrcs = append(fs, pipeSrc{Spec: k + "=" + pth, Path: pth, Content: []byte{0xff, 0x00, byte(0x41 + rng.Intn(3))}})
}

func (g *pipeGen) genSpec(rng *Rng, secret bool, layer *pipeDir) pipeGenSpec {
	s := pipeGenSpec{Name: g.freshName(map[bool]string{false: "ConfigMap", true: "Secret"}[secret])}
	if g.useNs && rng.Chance(40) {
		s.Namespace = rng.Pick(pipeNss)
	}
	nl := rng.Intn(4)
	keys := []string{"a", "b", "key", "k.x", "Z"}
	for i := 0; i < nl; i++ {
		k := keys[i]
		if rng.Chance(5) && i > 0 {
			k = keys[0] // repeated key: generator error
		}
		v := rng.Pick(pipeAdvValues)
		if rng.Chance(10) {
			v = `"quoted"`
		}
		s.Literals = append(s.Literals, k+"="+v)
	}
	g.srcN++
	if rng.Chance(22) {
		lines := []string{"E1=one", "# a comment", "", "E2=two words", "  E3=x=y", "BARE"}
		n := 1 + rng.Intn(len(lines))
		txt := strings.Join(lines[:n], "\n") + "\n"
		if rng.Chance(20) {
			txt = "\xef\xbb\xbf" + txt // BOM
		}
		pth := fmt.Sprintf("g%d.env", g.srcN)
		s.Envs = append(s.Envs, pipeSrc{Spec: pth, Path: pth, Content: []byte(txt)})
	}
	if rng.Chance(25) {
		nf := 1 + rng.Intn(2)
		for i := 0; i < nf; i++ {
			pth := fmt.Sprintf("f%d-%d.txt", g.srcN, i)
			spec := pth
			if rng.Chance(60) {
				// keys shared with the literal keys: a merge over another generator may move a key between
				// data and binaryData
				spec = fmt.Sprintf("%s=%s", rng.Pick([]string{"a", "b", "key", "fk"}), pth)
			}
			var content []byte
			switch rng.Intn(4) {
			case 0:
				content = []byte{0xff, 0xfe, 0x00, 0x41} // not UTF-8: binaryData in a ConfigMap
			case 1:
				content = []byte("line1\nline2\n")
			default:
				content = []byte(rng.Pick(pipeAdvValues))
			}
			s.FileSrcs = append(s.FileSrcs, pipeSrc{Spec: spec, Path: pth, Content: content})
		}
	}
	if !secret && rng.Chance(12) {
		g.binaryKey(rng, &s, "a")
	}
	if secret && rng.Chance(30) {
		s.Type = rng.Pick([]string{"Opaque", "kubernetes.io/tls", "x"})
	}
	if rng.Chance(40) {
		s.HasOpts = true
		s.DisableHash = rng.Chance(50)
		if rng.Chance(40) {
			s.Labels = pipeRandPairs(rng, 2)
		}
		if rng.Chance(30) {
			s.Annos = pipeRandPairs(rng, 2)
		}
	}
	return s
}

func pipeGenCase(rng *Rng, rules []krusty.VerifC03Rule) *pipeCase {
	g := &pipeGen{rng: rng, rules: rules, useNs: rng.Chance(50)}
	pc := &pipeCase{Files: map[string]string{}}
	mk := func(name string, parent *pipeDir) *pipeDir {
		d := &pipeDir{Name: name, parent: parent}
		if parent != nil {
			d.depth = parent.depth + 1
		}
		g.dirs = append(g.dirs, d)
		return d
	}
	top := mk(rng.Pick([]string{"top", "overlay", "prod"}), nil)
	pc.Top = top
	pc.Shape = rng.Pick([]string{"single", "single", "overlay", "overlay", "siblings", "chain3", "tree3"})
	var subs [][2]*pipeDir // (parent, child)
	switch pc.Shape {
	case "overlay":
		subs = append(subs, [2]*pipeDir{top, mk("base", top)})
	case "siblings":
		subs = append(subs, [2]*pipeDir{top, mk("base-a", top)}, [2]*pipeDir{top, mk("base-b", top)})
	case "chain3":
		mid := mk("mid", top)
		subs = append(subs, [2]*pipeDir{top, mid}, [2]*pipeDir{mid, mk("base", mid)})
	case "tree3":
		mid := mk("mid", top)
		subs = append(subs, [2]*pipeDir{top, mid}, [2]*pipeDir{mid, mk("b1", mid)}, [2]*pipeDir{top, mk("b2", top)})
	}
	// generators first (their names are referents)
	for _, d := range g.dirs {
		if rng.Chance(35) {
			n := 1 + rng.Intn(2)
			for i := 0; i < n; i++ {
				sp := g.genSpec(rng, false, d)
				d.CmGens = append(d.CmGens, sp)
				g.objs = append(g.objs, &pipeObj{ID: "g", Kind: "ConfigMap", AV: "v1", Name: sp.Name, Ns: sp.Namespace, Layer: d, Gen: true})
			}
		}
		if rng.Chance(25) {
			sp := g.genSpec(rng, true, d)
			d.SecGens = append(d.SecGens, sp)
			g.objs = append(g.objs, &pipeObj{ID: "g", Kind: "Secret", AV: "v1", Name: sp.Name, Ns: sp.Namespace, Layer: d, Gen: true})
		}
	}
	// generatorOptions (also without any generator: the field alone makes the kustomization non-empty)
	for _, d := range g.dirs {
		if (len(d.CmGens)+len(d.SecGens) > 0 && rng.Chance(30)) || rng.Chance(3) {
			o := &pipeGenOpts{DisableHash: rng.Chance(30)}
			if rng.Chance(60) {
				o.Labels = pipeRandPairs(rng, 2)
			}
			if rng.Chance(40) {
				o.Annos = pipeRandPairs(rng, 2)
			}
			d.GenOpts = o
		}
	}
	// resources
	nres := 1 + rng.Intn(6)
	for i := 0; i < nres; i++ {
		k := pipeKinds[rng.Intn(len(pipeKinds))]
		d := g.dirs[rng.Intn(len(g.dirs))]
		g.newObj(k.Kind, k.AV, g.freshName(k.Kind), g.pickNs(k), d)
	}
	// generator behaviours: merge / replace into a ConfigMap / Secret of a descendant layer (generated or read
	// from a file), sometimes into nothing (error), sometimes an explicit create
	isUnder := func(x, anc *pipeDir) bool {
		for y := x.parent; y != nil; y = y.parent {
			if y == anc {
				return true
			}
		}
		return false
	}
	setBehavior := func(d *pipeDir, sp *pipeGenSpec, kind string) {
		switch r := rng.Intn(100); {
		case r < 6:
			sp.Behavior = "create"
		case r < 45:
			sp.Behavior = rng.Pick([]string{"merge", "replace"})
			var targets []*pipeObj
			for _, o := range g.objs {
				if o.Kind == kind && isUnder(o.Layer, d) {
					targets = append(targets, o)
				}
			}
			if len(targets) == 0 && rng.Chance(90) {
				sp.Behavior = ""
				return
			}
			if len(targets) > 0 && rng.Chance(88) {
				tg := targets[rng.Intn(len(targets))]
				for _, o := range g.objs {
					if o.Gen && o.Layer == d && o.Kind == kind && o.Name == sp.Name {
						o.Name, o.Ns = tg.Name, tg.Ns
					}
				}
				sp.Name, sp.Namespace = tg.Name, tg.Ns
				if kind == "ConfigMap" && sp.Behavior == "merge" && rng.Chance(45) {
					// a key the target (probably) holds in data arrives as binaryData, or the other way round:
					// MergeDataMapFrom / MergeBinaryDataMapFrom keep it in one map only
					g.binaryKey(rng, sp, rng.Pick([]string{"a", "b"}))
				}
				if rng.Chance(15) {
					sp.Namespace = ""
				}
				pc.Merges++
			}
		}
	}
	for _, d := range g.dirs {
		for i := range d.CmGens {
			setBehavior(d, &d.CmGens[i], "ConfigMap")
		}
		for i := range d.SecGens {
			setBehavior(d, &d.SecGens[i], "Secret")
		}
	}
	// references
	nedges := rng.Intn(5)
	for i := 0; i < nedges; i++ {
		for try := 0; try < 6; try++ {
			b := g.objs[rng.Intn(len(g.objs))]
			if g.addEdge(b, rng.Chance(10)) {
				break
			}
		}
	}
	pc.Refs = g.refs
	// twins: a second resource with the kind/name(/namespace) of an existing one, in the same or another layer
	// (id collisions at AppendAll / MergeAccumulator, namespace id conflicts, rival referral candidates)
	if rng.Chance(18) {
		var real []*pipeObj
		for _, o := range g.objs {
			if !o.Gen {
				real = append(real, o)
			}
		}
		if len(real) > 0 {
			o := real[rng.Intn(len(real))]
			ns := o.Ns
			if g.useNs && rng.Chance(40) {
				ki, _ := pipeKindInfo(o.Kind)
				ns = g.pickNs(ki)
			}
			d := g.dirs[rng.Intn(len(g.dirs))]
			g.newObj(o.Kind, o.AV, o.Name, ns, d)
			pc.Twins = true
		}
	}
	// directives
	for _, d := range g.dirs {
		if rng.Chance(35) {
			d.Prefix = rng.Pick(pipePrefixes)
		}
		if rng.Chance(20) {
			d.Suffix = rng.Pick(pipeSuffixes)
		}
		if rng.Chance(30) {
			d.Ns = rng.Pick(pipeNss)
		}
		if rng.Chance(30) {
			d.CommonLabels = pipeRandPairs(rng, 2)
		}
		if rng.Chance(25) {
			d.CommonAnnos = pipeRandPairs(rng, 2)
		}
		if rng.Chance(30) {
			n := 1 + rng.Intn(2)
			for i := 0; i < n; i++ {
				e := pipeLabel{Pairs: pipeRandPairs(rng, 2),
					IncludeSelectors: rng.Chance(35), IncludeTemplates: rng.Chance(40)}
				if rng.Chance(25) {
					nf := 1 + rng.Intn(2)
					for j := 0; j < nf; j++ {
						e.Fields = append(e.Fields, pipeFieldPool[rng.Intn(len(pipeFieldPool))])
					}
				}
				d.Labels = append(d.Labels, e)
			}
		}
	}
	// replicas / images
	for _, d := range g.dirs {
		if rng.Chance(18) {
			var names []string
			for _, o := range g.objs {
				if !o.Gen && (o.Layer == d || isUnder(o.Layer, d)) &&
					(o.Kind == "Deployment" || o.Kind == "StatefulSet") {
					names = append(names, o.Name)
				}
			}
			name := "" // no entry
			if len(names) > 0 && rng.Chance(92) {
				name = names[rng.Intn(len(names))]
			} else if rng.Chance(10) {
				name = "no-such-workload" // error branch, kept rare
			}
			if name != "" {
				d.Replicas = append(d.Replicas, pipeReplica{Name: name, Count: int64(rng.Intn(9))})
			}
		}
		if rng.Chance(22) {
			n := 1 + rng.Intn(2)
			for i := 0; i < n; i++ {
				im := pipeImage{Name: rng.Pick([]string{"nginx", "busybox", "nginx", "registry.io/app", "ngin"})}
				switch rng.Intn(5) {
				case 0:
					im.NewTag = rng.Pick([]string{"1.9", "v2", "latest"})
				case 1:
					im.NewName = rng.Pick([]string{"my/nginx", "other"})
				case 2:
					im.Digest = "sha256:" + strings.Repeat("ab", 8)
				case 3:
					im.NewName, im.NewTag = "reg.local/x", "9"
				default:
					im.TagSuffix = "-dev"
				}
				d.Images = append(d.Images, im)
			}
		}
	}
	// files and entries
	for _, d := range g.dirs {
		var mine []*pipeObj
		for _, o := range g.objs {
			if o.Layer == d && !o.Gen {
				mine = append(mine, o)
			}
		}
		var ents []*pipeEnt
		nf := 0
		for len(mine) > 0 {
			n := 1 + rng.Intn(len(mine))
			if rng.Chance(50) {
				n = len(mine)
			}
			f := &pipeFile{Name: fmt.Sprintf("res%d.yaml", nf)}
			nf++
			for _, o := range mine[:n] {
				y, err := syaml.Marshal(o.Doc)
				if err != nil {
					panic(err)
				}
				f.Docs = append(f.Docs, string(y))
			}
			mine = mine[n:]
			ents = append(ents, &pipeEnt{File: f})
		}
		for _, s := range subs {
			if s[0] == d {
				ents = append(ents, &pipeEnt{Dir: s[1]})
			}
		}
		// order of the resources: entries
		for i := len(ents) - 1; i > 0; i-- {
			j := rng.Intn(i + 1)
			ents[i], ents[j] = ents[j], ents[i]
		}
		d.Ents = ents
	}
	switch r := rng.Intn(100); {
	case r < 35:
		pc.Sort = "none"
	case r < 50:
		pc.Sort = "fifo"
	case r < 88:
		pc.Sort = "legacy"
	default:
		pc.Sort = "custom"
		pc.First = []string{"Service", "ConfigMap"}
		pc.Last = []string{"Deployment"}
		if rng.Bool() {
			pc.First = []string{"Secret"}
			pc.Last = nil
		}
	}
	pc.Locals = g.locals
	if rng.Chance(55) {
		pc.Patches = g.genPatches(rng)
	}
	pc.Root = "/w/" + top.Name
	pipeRender(pc)
	return pc
}

// ---------------------------------------------------------------- rendering

func pipeStrMap(m map[string]string) map[string]interface{} {
	out := map[string]interface{}{}
	for k, v := range m {
		out[k] = v
	}
	return out
}

func pipeGenYaml(s pipeGenSpec, secret bool) map[string]interface{} {
	m := map[string]interface{}{"name": s.Name}
	if s.Namespace != "" {
		m["namespace"] = s.Namespace
	}
	if s.Behavior != "" {
		m["behavior"] = s.Behavior
	}
	if len(s.Literals) > 0 {
		l := []interface{}{}
		for _, x := range s.Literals {
			l = append(l, x)
		}
		m["literals"] = l
	}
	if len(s.Envs) > 0 {
		l := []interface{}{}
		for _, e := range s.Envs {
			l = append(l, e.Spec)
		}
		m["envs"] = l
	}
	if len(s.FileSrcs) > 0 {
		l := []interface{}{}
		for _, e := range s.FileSrcs {
			l = append(l, e.Spec)
		}
		m["files"] = l
	}
	if secret && s.Type != "" {
		m["type"] = s.Type
	}
	if s.HasOpts {
		o := map[string]interface{}{"disableNameSuffixHash": s.DisableHash}
		if len(s.Labels) > 0 {
			o["labels"] = pipeStrMap(s.Labels)
		}
		if len(s.Annos) > 0 {
			o["annotations"] = pipeStrMap(s.Annos)
		}
		m["options"] = o
	}
	return m
}

func pipeRenderDir(pc *pipeCase, d *pipeDir, path string, top bool) {
	k := map[string]interface{}{"apiVersion": "kustomize.config.k8s.io/v1beta1", "kind": "Kustomization"}
	var resources []interface{}
	for _, e := range d.Ents {
		if e.File != nil {
			resources = append(resources, e.File.Name)
			pc.Files[path+"/"+e.File.Name] = strings.Join(e.File.Docs, "---\n")
		} else {
			resources = append(resources, e.Dir.Name)
			pipeRenderDir(pc, e.Dir, path+"/"+e.Dir.Name, false)
		}
	}
	if len(resources) > 0 {
		k["resources"] = resources
	}
	if d.Ns != "" {
		k["namespace"] = d.Ns
	}
	if d.Prefix != "" {
		k["namePrefix"] = d.Prefix
	}
	if d.Suffix != "" {
		k["nameSuffix"] = d.Suffix
	}
	if len(d.Patches) > 0 {
		var pl []interface{}
		for _, p := range d.Patches {
			pl = append(pl, pipePatchYaml(p))
			if !p.Inline {
				pc.Files[path+"/"+p.File] = strings.Join(p.Docs, "---\n")
			}
		}
		k["patches"] = pl
	}
	if len(d.CommonLabels) > 0 {
		k["commonLabels"] = pipeStrMap(d.CommonLabels)
	}
	if len(d.CommonAnnos) > 0 {
		k["commonAnnotations"] = pipeStrMap(d.CommonAnnos)
	}
	if len(d.Labels) > 0 {
		var l []interface{}
		for _, e := range d.Labels {
			m := map[string]interface{}{"pairs": pipeStrMap(e.Pairs)}
			if e.IncludeSelectors {
				m["includeSelectors"] = true
			}
			if e.IncludeTemplates {
				m["includeTemplates"] = true
			}
			if len(e.Fields) > 0 {
				var fl []interface{}
				for _, f := range e.Fields {
					fm := map[string]interface{}{"path": f.Path}
					if f.Group != "" {
						fm["group"] = f.Group
					}
					if f.Version != "" {
						fm["version"] = f.Version
					}
					if f.Kind != "" {
						fm["kind"] = f.Kind
					}
					if f.Create {
						fm["create"] = true
					}
					fl = append(fl, fm)
				}
				m["fields"] = fl
			}
			l = append(l, m)
		}
		k["labels"] = l
	}
	for _, gl := range [][]pipeGenSpec{d.CmGens, d.SecGens} {
		for _, s := range gl {
			for _, e := range append(append([]pipeSrc{}, s.Envs...), s.FileSrcs...) {
				pc.Files[path+"/"+e.Path] = string(e.Content)
			}
		}
	}
	if len(d.CmGens) > 0 {
		var l []interface{}
		for _, s := range d.CmGens {
			l = append(l, pipeGenYaml(s, false))
		}
		k["configMapGenerator"] = l
	}
	if len(d.SecGens) > 0 {
		var l []interface{}
		for _, s := range d.SecGens {
			l = append(l, pipeGenYaml(s, true))
		}
		k["secretGenerator"] = l
	}
	if len(d.Replicas) > 0 {
		var l []interface{}
		for _, rp := range d.Replicas {
			l = append(l, map[string]interface{}{"name": rp.Name, "count": rp.Count})
		}
		k["replicas"] = l
	}
	if len(d.Images) > 0 {
		var l []interface{}
		for _, im := range d.Images {
			m := map[string]interface{}{"name": im.Name}
			if im.NewName != "" {
				m["newName"] = im.NewName
			}
			if im.TagSuffix != "" {
				m["tagSuffix"] = im.TagSuffix
			}
			if im.NewTag != "" {
				m["newTag"] = im.NewTag
			}
			if im.Digest != "" {
				m["digest"] = im.Digest
			}
			l = append(l, m)
		}
		k["images"] = l
	}
	if d.GenOpts != nil {
		o := map[string]interface{}{}
		if d.GenOpts.DisableHash {
			o["disableNameSuffixHash"] = true
		}
		if len(d.GenOpts.Labels) > 0 {
			o["labels"] = pipeStrMap(d.GenOpts.Labels)
		}
		if len(d.GenOpts.Annos) > 0 {
			o["annotations"] = pipeStrMap(d.GenOpts.Annos)
		}
		k["generatorOptions"] = o
	}
	if top {
		switch pc.Sort {
		case "fifo":
			k["sortOptions"] = map[string]interface{}{"order": "fifo"}
		case "legacy":
			k["sortOptions"] = map[string]interface{}{"order": "legacy"}
		case "custom":
			lo := map[string]interface{}{}
			if pc.First != nil {
				lo["orderFirst"] = pc.First
			}
			if pc.Last != nil {
				lo["orderLast"] = pc.Last
			}
			k["sortOptions"] = map[string]interface{}{"order": "legacy", "legacySortOptions": lo}
		}
	}
	y, err := syaml.Marshal(k)
	if err != nil {
		panic(err)
	}
	pc.Files[path+"/kustomization.yaml"] = string(y)
}

func pipeRender(pc *pipeCase) {
	pc.Files = map[string]string{}
	pipeRenderDir(pc, pc.Top, pc.Root, true)
}

func pipeMakeFs(files map[string]string) filesys.FileSystem {
	fs := filesys.MakeFsInMemory()
	names := make([]string, 0, len(files))
	for n := range files {
		names = append(names, n)
	}
	sort.Strings(names)
	for _, n := range names {
		_ = fs.WriteFile(n, []byte(files[n]))
	}
	return fs
}

// ---------------------------------------------------------------- running the implementation

type pipeOutcome struct {
	Cls string
	Msg string
	M   resmap.ResMap
	Y   string
}

func pipeRun(files map[string]string, root string) pipeOutcome {
	var o pipeOutcome
	restore := quietStderr()
	defer restore()
	log.SetOutput(io.Discard)
	o.Cls, o.Msg = protect(func() error {
		m, err := krusty.MakeKustomizer(krusty.MakeDefaultOptions()).Run(pipeMakeFs(files), root)
		if err != nil {
			return err
		}
		o.M = m
		y, err := m.AsYaml()
		if err != nil {
			return err
		}
		o.Y = string(y)
		return nil
	})
	return o
}

// ---------------------------------------------------------------- Coq terms

func pipeCoqPairs(m map[string]string) string {
	keys := make([]string, 0, len(m))
	for k := range m {
		keys = append(keys, k)
	}
	sort.Strings(keys)
	// the model must not depend on the order the pairs are given in: send them in REVERSE key order
	parts := []string{}
	for i := len(keys) - 1; i >= 0; i-- {
		parts = append(parts, fmt.Sprintf("(%s, %s)", coqStr(keys[i]), coqStr(m[keys[i]])))
	}
	return "[" + strings.Join(parts, "; ") + "]"
}

func pipeCoqGen(s pipeGenSpec) string {
	var envs, files []string
	for _, e := range s.Envs {
		envs = append(envs, coqStr(string(e.Content)))
	}
	for _, e := range s.FileSrcs {
		files = append(files, fmt.Sprintf("(%s, %s)", coqStr(e.Spec), coqStr(string(e.Content))))
	}
	return fmt.Sprintf("(mkPGenX %s %s %s %s %s %s %s %s %s [%s] [%s])", coqStr(s.Name), coqStr(s.Namespace), coqStr(s.Behavior), coqStrList(s.Literals),
		coqStr(s.Type), coqBool(s.HasOpts), pipeCoqPairs(s.Labels), pipeCoqPairs(s.Annos), coqBool(s.DisableHash),
		strings.Join(envs, "; "), strings.Join(files, "; "))
}

var customFields bool // set by pipeCoqDir when a labels entry carries custom fields (distribution only)

func pipeCoqDir(d *pipeDir, vals map[string]bool, nodes *[]*kyaml.RNode) (string, bool) {
	var labels, cm, sec, ents []string
	note := func(m map[string]string) {
		for k, v := range m {
			vals[k] = true
			vals[v] = true
		}
	}
	for _, e := range d.Labels {
		note(e.Pairs)
		var fl []string
		for _, f := range e.Fields {
			fl = append(fl, fmt.Sprintf("(mkFs %s %s %s %s %s)", coqStr(f.Group), coqStr(f.Version), coqStr(f.Kind), coqStr(f.Path), coqBool(f.Create)))
		}
		if len(e.Fields) > 0 {
			customFields = true
		}
		labels = append(labels, fmt.Sprintf("(Labels.mkLD %s %s %s [%s])", pipeCoqPairs(e.Pairs), coqBool(e.IncludeSelectors), coqBool(e.IncludeTemplates), strings.Join(fl, "; ")))
	}
	note(d.CommonLabels)
	note(d.CommonAnnos)
	for _, s := range d.CmGens {
		note(s.Labels)
		note(s.Annos)
		cm = append(cm, pipeCoqGen(s))
	}
	for _, s := range d.SecGens {
		note(s.Labels)
		note(s.Annos)
		sec = append(sec, pipeCoqGen(s))
	}
	for _, e := range d.Ents {
		if e.File != nil {
			var docs []string
			for _, y := range e.File.Docs {
				rn, err := kyaml.Parse(y)
				if err != nil {
					return "", false
				}
				scalarValues(rn.YNode(), vals)
				t, ok := coqNode(rn.YNode())
				if !ok {
					return "", false
				}
				docs = append(docs, t)
				*nodes = append(*nodes, rn)
			}
			ents = append(ents, "(PFile ["+strings.Join(docs, "; ")+"])")
		} else {
			t, ok := pipeCoqDir(e.Dir, vals, nodes)
			if !ok {
				return "", false
			}
			ents = append(ents, t)
		}
	}
	gopts := "None"
	if d.GenOpts != nil {
		note(d.GenOpts.Labels)
		note(d.GenOpts.Annos)
		gopts = fmt.Sprintf("(Some (mkPGopts %s %s %s))", pipeCoqPairs(d.GenOpts.Labels), pipeCoqPairs(d.GenOpts.Annos), coqBool(d.GenOpts.DisableHash))
	}
	var rps, ims []string
	for _, rp := range d.Replicas {
		rps = append(rps, fmt.Sprintf("(Replica.mkReplica %s %s)", coqStr(rp.Name), coqStr(fmt.Sprint(rp.Count))))
		vals[fmt.Sprint(rp.Count)] = true
	}
	for _, im := range d.Images {
		ims = append(ims, fmt.Sprintf("(Image.mkImage %s %s %s %s %s)", coqStr(im.Name), coqStr(im.NewName), coqStr(im.TagSuffix), coqStr(im.NewTag), coqStr(im.Digest)))
	}
	pts, ok := pipeCoqPatches(d, vals, nodes)
	if !ok {
		return "", false
	}
	dirs := fmt.Sprintf("(mkPDirsP %s %s %s [%s] %s %s [%s] [%s] %s [%s] [%s] [%s])", coqStr(d.Ns), coqStr(d.Prefix), coqStr(d.Suffix),
		strings.Join(labels, "; "), pipeCoqPairs(d.CommonLabels), pipeCoqPairs(d.CommonAnnos),
		strings.Join(cm, "; "), strings.Join(sec, "; "), gopts, strings.Join(rps, "; "), strings.Join(ims, "; "), pts)
	return fmt.Sprintf("(PDir %s %s [%s])", coqStr(d.Name), dirs, strings.Join(ents, "; ")), true
}

func pipeCoqSort(pc *pipeCase) string {
	switch pc.Sort {
	case "fifo":
		return "PSortFifo"
	case "legacy":
		return "(PSortLegacy LegacyOrder.gen_order_first LegacyOrder.gen_order_last)"
	case "custom":
		return fmt.Sprintf("(PSortLegacy %s %s)", coqStrList(pc.First), coqStrList(pc.Last))
	}
	return "PSortNone"
}

func pipeCaseTerm(pc *pipeCase, o pipeOutcome) (string, bool) {
	vals := map[string]bool{}
	var nodes []*kyaml.RNode
	tree, ok := pipeCoqDir(pc.Top, vals, &nodes)
	if !ok {
		return "", false
	}
	var outs []string
	if o.Cls == ClsOk {
		for _, r := range o.M.Resources() {
			scalarValues(r.YNode(), vals)
			t, ok := coqNode(r.YNode())
			if !ok {
				return "", false
			}
			outs = append(outs, t)
		}
	}
	var ns []string
	for _, v := range sortedKeys(vals) {
		if kyaml.IsValueNonString(v) {
			ns = append(ns, v)
		}
	}
	sch := "rn"
	if pc.Patches > 0 {
		// the projection of the openapi schema on every path of the inputs, the patches and the outputs (as in C04);
		// a patch copy carries the apiVersion of its target: one more root per (patch kind, apiVersion) pair
		if o.Cls == ClsOk {
			for _, r := range o.M.Resources() {
				nodes = append(nodes, &r.RNode)
			}
		}
		nodes = append(nodes, pipePatchRoots(pc.Top, nodes)...)
		sch = dumpSchemaTree(nodes...)
		if multiKeyDirective {
			return "", false
		}
	}
	return fmt.Sprintf("(let sch := %s in CPipe %s %s %s %s [%s])", sch, coqStrList(ns), pipeCoqSort(pc), tree, o.Cls, strings.Join(outs, "; ")), true
}

// ---------------------------------------------------------------- law oracles on the implementation

func pipeCountDocs(d *pipeDir) int {
	n := 0
	for _, e := range d.Ents {
		if e.File != nil {
			n += len(e.File.Docs)
		} else {
			n += pipeCountDocs(e.Dir)
		}
	}
	return n
}

func pipeTracersIn(d *pipeDir, acc map[string]int) {
	for _, e := range d.Ents {
		if e.File != nil {
			for _, y := range e.File.Docs {
				var doc map[string]interface{}
				if syaml.Unmarshal([]byte(y), &doc) == nil {
					if md, ok := doc["metadata"].(map[string]interface{}); ok {
						if an, ok := md["annotations"].(map[string]interface{}); ok {
							if id, ok := an[pipeTracer].(string); ok {
								acc[id]++
							}
						}
					}
				}
			}
		} else {
			pipeTracersIn(e.Dir, acc)
		}
	}
}

// returns violations (law, class, detail)
func pipeOracles(pc *pipeCase, o pipeOutcome) [][3]string {
	var out [][3]string
	if o.Cls == ClsPanic {
		// no exemption: the id collision among the resources IgnoreLocal keeps (former C12 finding, class
		// panic:api/resmap.(*Factory).FromResourceSlice:explicit-may-not-add) is an error since /repo 9a490e0 + 66fde0c
		return append(out, [3]string{"no_panic", "PIPE/panic", o.Msg})
	}
	if o.Cls != ClsOk {
		return nil
	}
	// hygiene
	for _, r := range o.M.Resources() {
		for k := range r.GetAnnotations() {
			if strings.HasPrefix(k, "internal.config.kubernetes.io/") || k == "config.kubernetes.io/origin" ||
				k == "alpha.config.kubernetes.io/transformations" {
				out = append(out, [3]string{"hygiene", "PIPE/hygiene/" + k, r.CurId().String()})
			}
		}
	}
	// every input document exactly once
	want := map[string]int{}
	pipeTracersIn(pc.Top, want)
	got := map[string]int{}
	for _, r := range o.M.Resources() {
		if id, ok := r.GetAnnotations()[pipeTracer]; ok {
			got[id]++
		}
	}
	for id, n := range want {
		// documents marked local-config may be dropped (IgnoreLocal): at most once then, exactly once otherwise
		// ... and so may what a patch deletes (the resource, or its annotations)
		if (pc.Locals == 0 && pc.Patches == 0 && got[id] != n) || got[id] > n {
			out = append(out, [3]string{"identity_multiset", "PIPE/identity-multiset", fmt.Sprintf("tracer %s: %d inputs, %d outputs", id, n, got[id])})
			break
		}
	}
	for id := range got {
		if want[id] == 0 {
			out = append(out, [3]string{"identity_multiset", "PIPE/identity-multiset", "output tracer without input: " + id})
			break
		}
	}
	// wrap
	wfiles := map[string]string{}
	for k, v := range pc.Files {
		wfiles[k] = v
	}
	rel := strings.TrimPrefix(pc.Root, "/w/")
	wk := map[string]interface{}{"resources": []interface{}{"../" + rel}}
	// top-only fields move to the wrapper
	var topk map[string]interface{}
	if syaml.Unmarshal([]byte(pc.Files[pc.Root+"/kustomization.yaml"]), &topk) == nil {
		if so, ok := topk["sortOptions"]; ok {
			wk["sortOptions"] = so
		}
	}
	y, _ := syaml.Marshal(wk)
	wfiles["/w/zz-wrap/kustomization.yaml"] = string(y)
	w := pipeRun(wfiles, "/w/zz-wrap")
	if w.Cls != ClsOk || w.Y != o.Y {
		out = append(out, [3]string{"wrap", "PIPE/wrap", "build(wrap T) differs from build(T): " + w.Cls + " " + w.Msg})
	}
	return out
}

// ---------------------------------------------------------------- driver

func runPIPE(r *Run, rng *Rng, tier string) error {
	r.Meta.Rule = "krusty.Run on a generated kustomization tree vs Res/Pipeline.build: outcome class and every output document (whole document, typed JSON, modulo mapping key order) in order; law oracles hygiene / identity multiset / wrap on the implementation"
	rules := krusty.VerifC03DefaultRules()
	n := 260
	if tier == "thorough" {
		n = 4000
	}
	debug := os.Getenv("PIPE_DEBUG") != ""
	r.shard = 40 // ~0.2 s of vm_compute per case (SHA-256, whole documents): small shards run in parallel
	for _, pc := range pipeLoadCorpus() {
		pipeOne(r, pc, debug, true)
	}
	for i := 0; i < n; i++ {
		pc := pipeGenCase(rng.Fork(), rules)
		pipeOne(r, pc, debug, false)
	}
	r.header += internHeader() // strings of the schema projections (dumpSchemaTree)
	return nil
}

func pipeCountKinds(r *Run, d *pipeDir, depth int, maxDepth *int, ndirs *int) {
	*ndirs++
	if depth > *maxDepth {
		*maxDepth = depth
	}
	used := func(dim string, b bool) {
		if b {
			r.Count("directive", dim)
		}
	}
	used("namespace", d.Ns != "")
	used("namePrefix", d.Prefix != "")
	used("nameSuffix", d.Suffix != "")
	used("commonLabels", len(d.CommonLabels) > 0)
	used("commonAnnotations", len(d.CommonAnnos) > 0)
	used("labels", len(d.Labels) > 0)
	used("configMapGenerator", len(d.CmGens) > 0)
	used("secretGenerator", len(d.SecGens) > 0)
	used("generatorOptions", d.GenOpts != nil)
	used("replicas:", len(d.Replicas) > 0)
	used("images:", len(d.Images) > 0)
	for _, e := range d.Ents {
		if e.File != nil {
			for _, y := range e.File.Docs {
				var doc map[string]interface{}
				if syaml.Unmarshal([]byte(y), &doc) == nil {
					r.Count("kind", fmt.Sprint(doc["kind"]))
				}
			}
		} else {
			pipeCountKinds(r, e.Dir, depth+1, maxDepth, ndirs)
		}
	}
}

func pipeOne(r *Run, pc *pipeCase, debug bool, corpus bool) {
	if pc.Patches == 0 {
		pc.Patches = pipeCountPatches(pc.Top)
	}
	o := pipeRun(pc.Files, pc.Root)
	md, nd := 0, 0
	pipeCountKinds(r, pc.Top, 1, &md, &nd)
	r.Count("layers", fmt.Sprint(md))
	r.Count("shape", pc.Shape)
	r.Count("sort", pc.Sort)
	r.Count("outcome", o.Cls)
	r.Count("refs", fmt.Sprint(pc.Refs))
	r.Count("twins", fmt.Sprint(pc.Twins))
	r.Count("local_config_docs", fmt.Sprint(pc.Locals))
	r.Count("merge_replace_targets", fmt.Sprint(pc.Merges))
	if pc.Merges > 0 {
		r.Count("merge_replace_outcome", o.Cls)
	}
	if o.Cls == ClsErr {
		r.Count("error", pipeErrKind(o.Msg))
	}
	if o.Cls == ClsOk {
		r.Count("outputs", fmt.Sprint(len(o.M.Resources())))
	}
	for _, v := range pipeOracles(pc, o) {
		r.Violation(OracleViolation{Law: v[0], Class: v[1], Detail: v[2], Replay: pc})
	}
	customFields = false
	term, ok := pipeCaseTerm(pc, o)
	r.Count("labels_custom_fields", fmt.Sprint(customFields))
	if !ok {
		r.Meta.Skipped++
		return
	}
	r.AddCase(term, pc, nd > 1 || pc.Refs > 0 || md > 1)
	if debug {
		fmt.Fprintf(os.Stderr, "---- case %d cls=%s %s\n", len(r.cases)-1, o.Cls, o.Msg)
	}
}

func pipeErrKind(msg string) string {
	switch {
	case strings.Contains(msg, "already registered id") || strings.Contains(msg, "may not add resource with an already registered id"):
		return "id-collision"
	case strings.Contains(msg, "ID conflict"):
		return "namespace-id-conflict"
	case strings.Contains(msg, "multiple possible referrals") || strings.Contains(msg, "found multiple possible referrals"):
		return "ambiguous-referral"
	case strings.Contains(msg, "illegally repeats the key"):
		return "generator-repeated-key"
	case strings.Contains(msg, "conflicting fieldspecs") || strings.Contains(msg, "failed to merge"):
		return "label-fieldspec-conflict"
	case strings.Contains(msg, "does not match a config with the following GVK"):
		return "replica-no-match"
	case strings.Contains(msg, "cannot merge or replace"):
		return "merge-target-missing"
	case strings.Contains(msg, "behavior must be merge or replace"):
		return "create-on-existing"
	case strings.Contains(msg, "kustomization.yaml is empty"):
		return "empty-kustomization"
	case strings.Contains(msg, "merging from generator"):
		return "generator-absorb"
	}
	if os.Getenv("PIPE_DEBUG") != "" {
		fmt.Fprintln(os.Stderr, "OTHER ERROR:", msg)
	}
	return "other"
}

func pipeLoadCorpus() []*pipeCase {
	dir := verifRoot() + "/corpus/PIPE"
	ents, err := os.ReadDir(dir)
	if err != nil {
		return nil
	}
	var out []*pipeCase
	for _, e := range ents {
		if !strings.HasSuffix(e.Name(), ".json") {
			continue
		}
		b, err := os.ReadFile(dir + "/" + e.Name())
		if err != nil {
			continue
		}
		var pc pipeCase
		if json.Unmarshal(b, &pc) == nil && pc.Top != nil {
			pipeRender(&pc)
			out = append(out, &pc)
		}
	}
	return out
}

func replayPIPE(path string) (bool, string, error) {
	b, err := os.ReadFile(path)
	if err != nil {
		return false, "", err
	}
	var wrap struct {
		Case *pipeCase `json:"case"`
	}
	pc := &pipeCase{}
	if json.Unmarshal(b, &wrap) == nil && wrap.Case != nil && wrap.Case.Top != nil {
		pc = wrap.Case
	} else if err := json.Unmarshal(b, pc); err != nil || pc.Top == nil {
		return false, "", fmt.Errorf("not a PIPE replay file")
	}
	pipeRender(pc)
	o := pipeRun(pc.Files, pc.Root)
	var sb strings.Builder
	names := make([]string, 0, len(pc.Files))
	for n := range pc.Files {
		names = append(names, n)
	}
	sort.Strings(names)
	for _, n := range names {
		fmt.Fprintf(&sb, "### %s\n%s\n", n, pc.Files[n])
	}
	fmt.Fprintf(&sb, "### build %s: %s %s\n%s\n", pc.Root, o.Cls, o.Msg, o.Y)
	vs := pipeOracles(pc, o)
	for _, v := range vs {
		fmt.Fprintf(&sb, "LAW VIOLATED %s (%s): %s\n", v[0], v[1], v[2])
	}
	return len(vs) > 0, sb.String(), nil
}

var _ = types.FieldSpec{}
