package main

import (
	"fmt"
	"os"
	"runtime"
	"runtime/pprof"
	"sync"
)

// C14, exhaustive small scope: every mapping document up to a size bound over keys {a,b,name} and scalars
// {x,y,1} x every path up to a length bound over a small part alphabet. The law oracles (laws14) run on
// every (document, path, operation); a stride sample is also sent to the model.

var enumKeys = []string{"a", "b", "name"}
var enumVals = []string{"x", "y", "1"}
var enumParts = []string{"a", "b", "name", "[name=x]", "[name=y]", "[=x]", "0", "-"}

// trees with exactly `size` nodes (maps: key subsets in the fixed order a<b<name; no duplicate keys)
func enumTrees(size int, memo map[int][]*gnode) []*gnode {
	if t, ok := memo[size]; ok {
		return t
	}
	out := []*gnode{}
	if size == 1 {
		for _, v := range enumVals {
			out = append(out, &gnode{kind: 0, text: v})
		}
		out = append(out, &gnode{kind: 1}, &gnode{kind: 2})
		memo[size] = out
		return out
	}
	// compositions of size-1 into m positive parts
	var comps func(total, m int) [][]int
	comps = func(total, m int) [][]int {
		if m == 1 {
			return [][]int{{total}}
		}
		res := [][]int{}
		for first := 1; first <= total-(m-1); first++ {
			for _, rest := range comps(total-first, m-1) {
				res = append(res, append([]int{first}, rest...))
			}
		}
		return res
	}
	var product func(sizes []int) [][]*gnode
	product = func(sizes []int) [][]*gnode {
		if len(sizes) == 0 {
			return [][]*gnode{{}}
		}
		res := [][]*gnode{}
		for _, h := range enumTrees(sizes[0], memo) {
			for _, t := range product(sizes[1:]) {
				res = append(res, append([]*gnode{h}, t...))
			}
		}
		return res
	}
	subsets := [][]string{}
	for mask := 1; mask < 1<<len(enumKeys); mask++ {
		s := []string{}
		for i, k := range enumKeys {
			if mask&(1<<i) != 0 {
				s = append(s, k)
			}
		}
		subsets = append(subsets, s)
	}
	for _, ks := range subsets {
		m := len(ks)
		if m > size-1 {
			continue
		}
		for _, comp := range comps(size-1, m) {
			for _, children := range product(comp) {
				out = append(out, &gnode{kind: 1, keys: ks, vals: children})
			}
		}
	}
	for m := 1; m <= size-1; m++ {
		for _, comp := range comps(size-1, m) {
			for _, children := range product(comp) {
				out = append(out, &gnode{kind: 2, vals: children})
			}
		}
	}
	memo[size] = out
	return out
}

func enumPaths(maxLen int) [][]string {
	out := [][]string{{}}
	level := [][]string{{}}
	for l := 1; l <= maxLen; l++ {
		next := [][]string{}
		for _, p := range level {
			for _, a := range enumParts {
				next = append(next, append(append([]string{}, p...), a))
			}
		}
		out = append(out, next...)
		level = next
	}
	return out
}

// bufSink collects what one worker produces.
type bufSink struct {
	viol     []OracleViolation
	counts   map[string]map[string]int
	evals    int
	nontriv  int
	modelled []modelled14
}

type modelled14 struct {
	term string
	c    case14
	nt   bool
}

func (b *bufSink) Violation(v OracleViolation) {
	if len(b.viol) < 50 {
		b.viol = append(b.viol, v)
	}
}
func (b *bufSink) Count(dim, key string) {
	if b.counts == nil {
		b.counts = map[string]map[string]int{}
	}
	m := b.counts[dim]
	if m == nil {
		m = map[string]int{}
		b.counts[dim] = m
	}
	m[key]++
}

// scope14: one closed space of the enumeration
type scope14 struct {
	minSize, maxSize int // documents with minSize..maxSize nodes
	maxLen           int // paths up to this length
}

func exhaustive14(r *Run, tier string) {
	if os.Getenv("VERIF_C14_ENUM") == "0" {
		return
	}
	if pf := os.Getenv("VERIF_C14_PROF"); pf != "" {
		f, _ := os.Create(pf)
		pprof.StartCPUProfile(f)
		defer pprof.StopCPUProfile()
	}
	// quick: documents up to 3 nodes x paths up to length 3, documents of 4 nodes x paths up to length 2
	scopes := []scope14{{1, 3, 3}, {4, 4, 2}}
	// model sample: every strideN-th evaluation that returned a node, every stride-th other one
	probeLen, stride, strideN := 2, 19997, 229
	if tier == "thorough" {
		scopes = []scope14{{1, 4, 3}, {5, 5, 2}}
		stride, strideN = 199999, 1999
	}
	memo := map[int][]*gnode{}
	type job struct {
		doc   string
		paths [][]string
	}
	jobs := []job{}
	pathsByLen := map[int][][]string{}
	for _, sc := range scopes {
		if _, ok := pathsByLen[sc.maxLen]; !ok {
			pathsByLen[sc.maxLen] = enumPaths(sc.maxLen)
		}
		for sz := sc.minSize; sz <= sc.maxSize; sz++ {
			for _, t := range enumTrees(sz, memo) {
				if t.kind == 1 {
					jobs = append(jobs, job{t.yaml(), pathsByLen[sc.maxLen]})
				}
			}
		}
	}
	probePaths := enumPaths(probeLen)
	names := []string{"b", "name"}
	vz, vw := vspec{"parse", "z"}, vspec{"parse", "w"}

	nw := runtime.GOMAXPROCS(0)
	if nw > 16 {
		nw = 16
	}
	bufs := make([]*bufSink, len(jobs))
	var wg sync.WaitGroup
	next := make(chan int, len(jobs))
	for i := range jobs {
		next <- i
	}
	close(next)
	for w := 0; w < nw; w++ {
		wg.Add(1)
		go func() {
			defer wg.Done()
			probes := mkProbes14(probePaths) // per worker: docCtx caches are keyed by probe.key only
			for ji := range next {
				b := &bufSink{}
				bufs[ji] = b
				jb := jobs[ji]
				d := newDocCtx14(jb.doc)
				if d == nil {
					b.Count("enum", "unparseable-doc")
					continue
				}
				seqT, seqN := ji*4099, ji*211
				one := func(c case14) {
					cls, got := laws14doc(b, c, d, probes)
					b.evals++
					sample := false
					if cls == ClsOk && got {
						b.nontriv++
						seqN++
						sample = seqN%strideN == 0
					} else {
						seqT++
						sample = seqT%stride == 0
					}
					b.Count("enum_class/"+c.Op, cls)
					if sample {
						cm := c
						cm.Probes = nil
						clsM, after, found, _ := exec14(cm)
						if term, ok := caseTerm14(cm, clsM, after, found); ok {
							b.modelled = append(b.modelled, modelled14{term, cm, clsM == ClsOk && found != nil})
						}
					}
				}
				for _, p := range jb.paths {
					one(case14{Op: "lookup", Doc: jb.doc, Path: p})
					v := vz
					one(case14{Op: "putscalar", Doc: jb.doc, Path: p, Value: &v})
					one(case14{Op: "elemset", Doc: jb.doc, Path: p, API: &apiSpec{Keys: []string{"name"}, Values: []string{"x"},
						Element: &vspec{"parse", "{name: x, b: z}"}}})
					for _, name := range names {
						one(case14{Op: "clear", Doc: jb.doc, Path: p, Name: name})
						v1, v2 := vz, vw
						one(case14{Op: "put", Doc: jb.doc, Path: p, Name: name, Value: &v1, Value2: &v2,
							Kind: fmt.Sprintf("enum-probes:%d", probeLen)})
					}
				}
			}
		}()
	}
	wg.Wait()
	total := 0
	for _, b := range bufs {
		if b == nil {
			continue
		}
		total += b.evals
		r.Meta.Evaluations += b.evals
		r.Meta.DistinctNontriv += b.nontriv
		for dim, m := range b.counts {
			for k, n := range m {
				dm := r.Meta.Distribution[dim]
				if dm == nil {
					dm = map[string]int{}
					r.Meta.Distribution[dim] = dm
				}
				dm[k] += n
			}
		}
		for _, v := range b.viol {
			r.Violation(v)
		}
		for _, m := range b.modelled {
			m.c.Kind = ""
			r.AddCase(m.term, m.c, m.nt)
			r.Meta.Evaluations-- // already counted above
		}
	}
	r.Meta.Exhaustive = true
	desc := []string{}
	for _, sc := range scopes {
		n := 0
		for sz := sc.minSize; sz <= sc.maxSize; sz++ {
			for _, t := range enumTrees(sz, memo) {
				if t.kind == 1 {
					n++
				}
			}
		}
		desc = append(desc, fmt.Sprintf("all %d mapping documents with %d..%d nodes x all %d paths of length <= %d",
			n, sc.minSize, sc.maxSize, len(pathsByLen[sc.maxLen]), sc.maxLen))
	}
	r.Meta.Notes = append(r.Meta.Notes, fmt.Sprintf(
		"exhaustive part (closed spaces, every case run to completion): %v; documents over keys {a,b,name} / scalars {x,y,1} "+
			"(maps with distinct keys, lists, nesting); path parts %v; ops {lookup, putscalar z, ElementSetter name=x := {name: x, b: z}, clear b|name, put b|name := z (then w)}; "+
			"frame probes: all %d paths of length <= %d over the same parts; %d law evaluations. The random part of the run is not exhaustive.",
		desc, enumParts, len(probePaths), probeLen, total))
}

// expandEnumProbes restores the probe list of a replayed exhaustive case.
func expandEnumProbes(c *case14) {
	var n int
	if _, err := fmt.Sscanf(c.Kind, "enum-probes:%d", &n); err == nil && c.Op == "put" {
		c.Probes = enumPaths(n)
		c.Kind = ""
	}
}
