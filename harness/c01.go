package main

import (
	"bufio"
	"bytes"
	"crypto/sha256"
	"encoding/hex"
	"encoding/json"
	"fmt"
	"os"
	"os/exec"
	"strings"
)

// C01: a build is a deterministic, history-independent function of its inputs.
// Search oracle on the implementation (this file: repetition and ordering part):
//   - every generated tree is built several times in this process: byte-identical output / same error text;
//   - batches of trees are built in two FRESH processes, in forward and in reverse order: each tree's result
//     must not depend on the process or on which other trees were built before it;
//   - a family of trees with TWO independent faults checks that the reported error is the same every time.
// The history part with custom OpenAPI schemas lives in c01_state.go (schema-globals state machine).

func init() {
	register("C01", propDef{
		header:     "From KV Require Import Corr.C01S.\nOpen Scope string_scope.\n",
		caseType:   "case01s",
		mismatchFn: "mismatches01s",
		run:        runC01,
		replay:     replayC01,
		worker:     workerC01,
	})
}

type work01 struct {
	Files  map[string]string `json:"files"`
	Top    string            `json:"top"`
	Legacy bool              `json:"legacy"`
}

func digest01(out, cls, msg string) string {
	h := sha256.Sum256([]byte(cls + "\x00" + msg + "\x00" + out))
	return cls + ":" + hex.EncodeToString(h[:10])
}

func runWork01(w work01) (string, string) {
	out, cls, msg := buildFS(fsFromFileMap(w.Files), w.Top, w.Legacy)
	return digest01(out, cls, msg), msg
}

// worker: one JSON work item per line in, one digest per line out
func workerC01() error {
	sc := bufio.NewScanner(os.Stdin)
	sc.Buffer(make([]byte, 1<<20), 1<<28)
	wr := bufio.NewWriter(os.Stdout)
	defer wr.Flush()
	for sc.Scan() {
		var w work01
		if err := json.Unmarshal(sc.Bytes(), &w); err != nil {
			return err
		}
		d, _ := runWork01(w)
		fmt.Fprintln(wr, d)
	}
	return sc.Err()
}

func freshRun01(items []work01) ([]string, error) {
	var in bytes.Buffer
	for _, w := range items {
		b, _ := json.Marshal(w)
		in.Write(b)
		in.WriteByte('\n')
	}
	cmd := exec.Command(os.Args[0], "-worker", "C01")
	cmd.Stdin = &in
	var out bytes.Buffer
	cmd.Stdout = &out
	if err := cmd.Run(); err != nil {
		return nil, fmt.Errorf("worker: %v", err)
	}
	lines := strings.Split(strings.TrimSpace(out.String()), "\n")
	if len(lines) != len(items) {
		return nil, fmt.Errorf("worker returned %d results for %d items", len(lines), len(items))
	}
	return lines, nil
}

// twoFaults injects two independent faults into a valid tree: which one is reported must be stable.
func twoFaults(g *Rng, t *GenTree) {
	switch g.Intn(3) {
	case 0: // two resource files with a nil list entry each
		for _, l := range t.Layers {
			for n, c := range l.Files {
				if strings.Contains(c, "containers:\n") {
					l.Files[n] = strings.Replace(c, "containers:\n", "containers:\n      -\n", 1)
				}
			}
		}
		if len(t.Layers[0].Files) > 0 {
			l := t.Layers[0]
			l.Files["nil.yaml"] = "apiVersion: v1\nkind: ConfigMap\nmetadata:\n  name: nilcm\nitems:\n- \n- a\n- \nother:\n- \n"
			l.Kust["resources"] = append(l.Kust["resources"].([]interface{}), "nil.yaml")
		}
	case 1: // two unknown top-level kustomization fields
		l := t.Layers[len(t.Layers)-1]
		l.Kust["bogusFieldA"] = "x"
		l.Kust["bogusFieldB"] = "y"
	default: // two missing resource files
		l := t.Layers[len(t.Layers)-1]
		l.Kust["resources"] = append(l.Kust["resources"].([]interface{}), "missing-a.yaml", "missing-b.yaml")
	}
}

type case01 struct {
	Items []work01 `json:"items"` // builds in order; the LAST one is the tree under test
	Note  string   `json:"note"`
}

func runC01(r *Run, rng *Rng, tier string) error {
	n, batch, reps := 120, 20, 3
	if tier == "thorough" {
		n, batch, reps = 3000, 30, 6
	}
	r.Meta.Rule = "generated kustomization chains (as C02) plus a two-fault family; each built `reps` times in-process, " +
		"and in batches in two fresh processes in forward and reverse order; results compared as sha256(class, error text, output bytes). " +
		"non-trivial = successful build of a tree with at least one directive; distinct by hash of the file map"
	var items []work01
	for i := 0; i < n; i++ {
		g := rng.Fork()
		dirs := []string{}
		for _, d := range allDirectives {
			if g.Chance(60) {
				dirs = append(dirs, d)
			}
		}
		if g.Chance(25) {
			dirs = append(dirs, "configurations")
		}
		if g.Chance(20) {
			dirs = append(dirs, "rbac")
		}
		if g.Chance(20) {
			dirs = append(dirs, "crds")
		}
		t := genTree(g, treeOpts{MaxLayers: 3, Directives: dirs, ResPerLayer: 4})
		fam := "valid"
		if hasDir(treeOpts{Directives: dirs}, "configurations") {
			fam = "valid+configurations"
		}
		if hasDir(treeOpts{Directives: dirs}, "rbac") {
			fam += "+rbac"
		}
		if hasDir(treeOpts{Directives: dirs}, "crds") {
			fam += "+crds"
		}
		if g.Chance(20) {
			twoFaults(g, t)
			fam = "two-faults"
		}
		w := work01{Files: t.FileMap(), Top: t.TopDir(), Legacy: g.Chance(30)}
		items = append(items, w)
		r.Count("family", fam)
		// in-process repetitions
		d0, msg0 := runWork01(w)
		r.Count("class", strings.SplitN(d0, ":", 2)[0])
		fp, _ := json.Marshal(w.Files)
		r.AddEval(string(fp), strings.HasPrefix(d0, ClsOk) && len(dirs) > 0)
		if len(r.Meta.Samples) < 2 && strings.HasPrefix(d0, ClsOk) {
			r.Meta.Samples = append(r.Meta.Samples, w)
		}
		for k := 1; k < reps; k++ {
			dk, msgk := runWork01(w)
			if dk != d0 {
				cls := "C01/repeat-differs"
				if strings.HasPrefix(d0, ClsErr) && strings.HasPrefix(dk, ClsErr) {
					cls = "C01/error-identity:" + errShape(msg0, msgk)
				}
				r.Violation(OracleViolation{Law: "repeat_in_process", Class: cls,
					Detail: fmt.Sprintf("repetition %d differs: %s vs %s; messages: %q / %q", k, d0, dk, trunc(msg0), trunc(msgk)),
					Replay: case01{Items: []work01{w}, Note: "repeat"}})
				break
			}
		}
	}
	// fresh processes, forward and reverse
	for s := 0; s < len(items); s += batch {
		e := s + batch
		if e > len(items) {
			e = len(items)
		}
		fw := items[s:e]
		rv := make([]work01, len(fw))
		for i := range fw {
			rv[len(fw)-1-i] = fw[i]
		}
		a, err := freshRun01(fw)
		if err != nil {
			return err
		}
		b, err := freshRun01(rv)
		if err != nil {
			return err
		}
		for i := range fw {
			r.Meta.Evaluations += 2
			inproc, _ := runWork01(fw[i])
			if a[i] != b[len(fw)-1-i] || a[i] != inproc {
				// isolate: the tree alone in a fresh process
				alone, _ := freshRun01([]work01{fw[i]})
				cls := "C01/history-or-process-dependence"
				if strings.HasPrefix(a[i], ClsErr) && strings.HasPrefix(b[len(fw)-1-i], ClsErr) && strings.HasPrefix(inproc, ClsErr) {
					cls = "C01/error-identity:fresh"
				}
				r.Violation(OracleViolation{Law: "fresh_process_order", Class: cls,
					Detail: fmt.Sprintf("tree %d: forward-batch %s, reverse-batch %s, in-process %s, alone %v", s+i, a[i], b[len(fw)-1-i], inproc, alone),
					Replay: case01{Items: append(append([]work01{}, fw[:i]...), fw[i]), Note: "history"}})
			}
		}
	}
	// second half: history (in)dependence w.r.t. the OpenAPI package-level state, with model correspondence
	rule := r.Meta.Rule
	if err := runC01S(r, rng.Fork(), tier); err != nil {
		return err
	}
	r.Meta.Rule = rule + " || state half: " + r.Meta.Rule
	return nil
}

func trunc(s string) string {
	if len(s) > 300 {
		return s[:300]
	}
	return s
}

// errShape names the kind of error whose identity varied (stable class ids for known findings).
func errShape(a, b string) string {
	for _, k := range []string{"empty item at", "multiple possible referrals", "unexpected key", "missing-a.yaml", "bogusField"} {
		if strings.Contains(a, k) || strings.Contains(b, k) {
			return strings.ReplaceAll(k, " ", "-")
		}
	}
	return "other"
}

func replayC01(path string) (bool, string, error) {
	data, err := os.ReadFile(path)
	if err != nil {
		return false, "", err
	}
	var rp struct {
		Case case01 `json:"case"`
	}
	if err := json.Unmarshal(data, &rp); err != nil {
		return false, "", err
	}
	items := rp.Case.Items
	if len(items) == 0 {
		// a case of the state half (history H + tree T)
		return replayC01S(path)
	}
	last := items[len(items)-1]
	alone, err := freshRun01([]work01{last})
	if err != nil {
		return false, "", err
	}
	after, err := freshRun01(items)
	if err != nil {
		return false, "", err
	}
	seen := map[string]bool{alone[0]: true, after[len(after)-1]: true}
	for i := 0; i < 8; i++ {
		d, _ := runWork01(last)
		seen[d] = true
	}
	return len(seen) > 1, fmt.Sprintf("distinct results: %v", sortedKeys(seen)), nil
}
