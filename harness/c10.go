package main

// C10: directives change exactly what they select.
//
// Correspondence (cases evaluated by KV.Corr.C10): regexp vs the derivative matcher, image value
// update, the image / replica transformers, resWrangler.Select, SmarterPathSplitter, PathMatcher
// (incl. Create) and replacement.Filter, all on near-miss families of names.
// Oracles (evaluated on the implementation only): builds through krusty.Run on an in-memory
// file system whose set of modified (resource, field) pairs and values is predicted by an
// independent matcher (c10_oracle.go).

import (
	"bufio"
	"encoding/json"
	"fmt"
	"io"
	"os"
	"os/exec"
	"regexp"
	"regexp/syntax"
	"sort"
	"strconv"
	"strings"
	"time"

	"sigs.k8s.io/kustomize/api/filters/imagetag"
	"sigs.k8s.io/kustomize/api/filters/replacement"
	"sigs.k8s.io/kustomize/api/krusty"
	"sigs.k8s.io/kustomize/api/provider"
	"sigs.k8s.io/kustomize/api/resmap"
	"sigs.k8s.io/kustomize/api/types"
	"sigs.k8s.io/kustomize/kyaml/resid"
	kutils "sigs.k8s.io/kustomize/kyaml/utils"
	kyaml "sigs.k8s.io/kustomize/kyaml/yaml"
)

func init() {
	if os.Getenv("VERIF_C10_CHILD") == "1" {
		c10ChildMain()
		os.Exit(0)
	}
	register("C10", propDef{
		header:     "From KV Require Import Corr.C10.\nOpen Scope string_scope.\n",
		caseType:   "case10",
		mismatchFn: "mismatches10",
		run:        runC10,
		replay:     replayC10,
	})
}

// ====================================================================== regexp AST -> Coq

// c10Re converts a regexp/syntax tree into a KV.Base.Regex term; ok=false when the pattern
// uses something outside the modelled fragment.
func c10Re(re *syntax.Regexp) (string, bool) {
	if re.Flags&syntax.FoldCase != 0 {
		return "", false
	}
	subs := func() ([]string, bool) {
		out := []string{}
		for _, s := range re.Sub {
			t, ok := c10Re(s)
			if !ok {
				return nil, false
			}
			out = append(out, t)
		}
		return out, true
	}
	switch re.Op {
	case syntax.OpNoMatch:
		return "Void", true
	case syntax.OpEmptyMatch:
		return "Eps", true
	case syntax.OpLiteral:
		b := []byte{}
		for _, r := range re.Rune {
			if r >= 128 {
				return "", false
			}
			b = append(b, byte(r))
		}
		return "(lit " + coqStr(string(b)) + ")", true
	case syntax.OpCharClass:
		parts := []string{}
		for i := 0; i+1 < len(re.Rune); i += 2 {
			lo, hi := re.Rune[i], re.Rune[i+1]
			if lo > 255 {
				continue
			}
			if hi > 255 {
				hi = 255
			}
			parts = append(parts, fmt.Sprintf("(%d,%d)", lo, hi))
		}
		return "(Cls [" + strings.Join(parts, ";") + "]%N)", true
	case syntax.OpAnyCharNotNL:
		return "AnyNotNL", true
	case syntax.OpAnyChar:
		return "AnyByte", true
	case syntax.OpBeginText:
		return "Bol", true
	case syntax.OpEndText:
		return "Eol", true
	case syntax.OpCapture:
		s, ok := subs()
		if !ok || len(s) != 1 {
			return "", false
		}
		return "(Group " + s[0] + ")", true
	case syntax.OpStar, syntax.OpPlus, syntax.OpQuest:
		s, ok := subs()
		if !ok || len(s) != 1 {
			return "", false
		}
		name := map[syntax.Op]string{syntax.OpStar: "Star", syntax.OpPlus: "Plus", syntax.OpQuest: "Opt"}[re.Op]
		return "(" + name + " " + s[0] + ")", true
	case syntax.OpRepeat:
		s, ok := subs()
		if !ok || len(s) != 1 || re.Min > 3 || re.Max > 4 {
			return "", false
		}
		parts := []string{}
		for i := 0; i < re.Min; i++ {
			parts = append(parts, s[0])
		}
		if re.Max < 0 {
			parts = append(parts, "(Star "+s[0]+")")
		} else {
			for i := re.Min; i < re.Max; i++ {
				parts = append(parts, "(Opt "+s[0]+")")
			}
		}
		return "(cat_of_list [" + strings.Join(parts, "; ") + "])", true
	case syntax.OpConcat:
		s, ok := subs()
		if !ok {
			return "", false
		}
		return "(cat_of_list [" + strings.Join(s, "; ") + "])", true
	case syntax.OpAlternate:
		s, ok := subs()
		if !ok || len(s) == 0 {
			return "", false
		}
		t := s[len(s)-1]
		for i := len(s) - 2; i >= 0; i-- {
			t = "(Alt " + s[i] + " " + t + ")"
		}
		return t, true
	}
	return "", false
}

// c10Pat: compile a pattern text like the implementation does. state: 0 ok (term), 1 compile error, 2 outside the fragment.
func c10Pat(p string) (term string, state int) {
	for i := 0; i < len(p); i++ {
		if p[i] >= 128 {
			return "", 2
		}
	}
	if _, err := regexp.Compile(p); err != nil {
		return "", 1
	}
	re, err := syntax.Parse(p, syntax.Perl)
	if err != nil {
		return "", 1
	}
	t, ok := c10Re(re)
	if !ok {
		return "", 2
	}
	return t, 0
}

// ptab collects the regexp.Compile results of the pattern texts a case needs.
type ptab struct {
	keys  []string
	terms map[string]string
	bad   bool // some pattern is outside the fragment: the case cannot be sent to the model
}

func newPtab() *ptab { return &ptab{terms: map[string]string{}} }
func (t *ptab) add(p string) {
	if _, ok := t.terms[p]; ok {
		return
	}
	term, st := c10Pat(p)
	switch st {
	case 0:
		t.terms[p] = "(Some " + term + ")"
	case 1:
		t.terms[p] = "None"
	default:
		t.bad = true
		t.terms[p] = "None"
	}
	t.keys = append(t.keys, p)
}
func (t *ptab) coq() string {
	parts := []string{}
	for _, k := range t.keys {
		parts = append(parts, fmt.Sprintf("(%s, %s)", coqStr(k), t.terms[k]))
	}
	return "[" + strings.Join(parts, "; ") + "]"
}

func asciiOnly(s string) bool {
	for i := 0; i < len(s); i++ {
		if s[i] >= 128 {
			return false
		}
	}
	return true
}

// ====================================================================== Coq printers

func coqNat(n int) string { return strconv.Itoa(n) }

func coqNodes(ns []*kyaml.RNode) (string, bool) {
	parts := []string{}
	for _, n := range ns {
		if n == nil || n.YNode() == nil {
			return "", false
		}
		t, ok := coqNode(n.YNode())
		if !ok {
			return "", false
		}
		parts = append(parts, t)
	}
	return "[" + strings.Join(parts, "; ") + "]", true
}

type c10Image struct {
	Name      string `json:"name"`
	NewName   string `json:"newName,omitempty"`
	TagSuffix string `json:"tagSuffix,omitempty"`
	NewTag    string `json:"newTag,omitempty"`
	Digest    string `json:"digest,omitempty"`
}

func (im c10Image) coq() string {
	return fmt.Sprintf("(mkImage %s %s %s %s %s)", coqStr(im.Name), coqStr(im.NewName), coqStr(im.TagSuffix), coqStr(im.NewTag), coqStr(im.Digest))
}
func (im c10Image) typ() types.Image {
	return types.Image{Name: im.Name, NewName: im.NewName, TagSuffix: im.TagSuffix, NewTag: im.NewTag, Digest: im.Digest}
}

const c10ImgSuffix = "(:[a-zA-Z0-9_.{}-]*)?(@sha256:[a-zA-Z0-9_.{}-]*)?$"

// the pattern image.IsImageMatched compiles (the entry name is quoted since /repo d3b6ede)
func c10ImgPattern(t string) string { return "^" + regexp.QuoteMeta(t) + c10ImgSuffix }

type c10Id struct {
	Group     string `json:"group,omitempty"`
	Version   string `json:"version,omitempty"`
	Kind      string `json:"kind,omitempty"`
	Name      string `json:"name,omitempty"`
	Namespace string `json:"namespace,omitempty"`
}

func (i c10Id) coq() string {
	return fmt.Sprintf("(mkId (mkGvk %s %s %s) %s %s)", coqStr(i.Group), coqStr(i.Version), coqStr(i.Kind), coqStr(i.Name), coqStr(i.Namespace))
}
func (i c10Id) resid() resid.ResId {
	return resid.ResId{Gvk: resid.Gvk{Group: i.Group, Version: i.Version, Kind: i.Kind}, Name: i.Name, Namespace: i.Namespace}
}

type c10Sel struct {
	c10Id
	Ann string `json:"annotationSelector,omitempty"`
	Lab string `json:"labelSelector,omitempty"`
}

func (s c10Sel) coq() string {
	return fmt.Sprintf("(mkSel %s %s %s)", s.c10Id.coq(), coqStr(s.Ann), coqStr(s.Lab))
}
func (s c10Sel) typ() *types.Selector {
	return &types.Selector{ResId: s.c10Id.resid(), AnnotationSelector: s.Ann, LabelSelector: s.Lab}
}

type c10Opts struct {
	Delimiter string `json:"delimiter,omitempty"`
	Index     int    `json:"index,omitempty"`
	Create    bool   `json:"create,omitempty"`
}

func coqZ(i int) string {
	if i < 0 {
		return fmt.Sprintf("(%d)%%Z", i)
	}
	return fmt.Sprintf("%d%%Z", i)
}
func coqOpts(o *c10Opts) string {
	if o == nil {
		return "None"
	}
	return fmt.Sprintf("(Some (mkFO %s %s %s))", coqStr(o.Delimiter), coqZ(o.Index), coqBool(o.Create))
}
func (o *c10Opts) typ() *types.FieldOptions {
	if o == nil {
		return nil
	}
	return &types.FieldOptions{Delimiter: o.Delimiter, Index: o.Index, Create: o.Create}
}

type c10Source struct {
	c10Id
	FieldPath string   `json:"fieldPath,omitempty"`
	Options   *c10Opts `json:"options,omitempty"`
}
type c10Target struct {
	Select     *c10Sel  `json:"select"`
	Reject     []c10Sel `json:"reject,omitempty"`
	FieldPaths []string `json:"fieldPaths,omitempty"`
	Options    *c10Opts `json:"options,omitempty"`
}
type c10Repl struct {
	Source      *c10Source  `json:"source,omitempty"`
	Targets     []c10Target `json:"targets"`
	NilTargets  bool        `json:"nilTargets,omitempty"`
	SourceValue *string     `json:"sourceValue,omitempty"`
}

func (r c10Repl) coq() string {
	src := "None"
	if r.Source != nil {
		src = fmt.Sprintf("(Some (mkSS %s %s %s))", r.Source.c10Id.coq(), coqStr(r.Source.FieldPath), coqOpts(r.Source.Options))
	}
	tg := "None"
	if !r.NilTargets {
		parts := []string{}
		for _, t := range r.Targets {
			sel := "None"
			if t.Select != nil {
				sel = "(Some " + t.Select.coq() + ")"
			}
			rej := []string{}
			for _, x := range t.Reject {
				rej = append(rej, x.coq())
			}
			parts = append(parts, fmt.Sprintf("(mkTS %s [%s] %s %s)", sel, strings.Join(rej, "; "), coqStrList(t.FieldPaths), coqOpts(t.Options)))
		}
		tg = "(Some [" + strings.Join(parts, "; ") + "])"
	}
	sv := "None"
	if r.SourceValue != nil {
		sv = "(Some " + coqStr(*r.SourceValue) + ")"
	}
	return fmt.Sprintf("(mkRepl %s %s %s)", src, tg, sv)
}
func (r c10Repl) typ() types.Replacement {
	out := types.Replacement{SourceValue: r.SourceValue}
	if r.Source != nil {
		out.Source = &types.SourceSelector{ResId: r.Source.c10Id.resid(), FieldPath: r.Source.FieldPath, Options: r.Source.Options.typ()}
	}
	if !r.NilTargets {
		out.Targets = []*types.TargetSelector{}
		for _, t := range r.Targets {
			ts := &types.TargetSelector{FieldPaths: append([]string{}, t.FieldPaths...), Options: t.Options.typ()}
			if t.Select != nil {
				ts.Select = t.Select.typ()
			}
			for _, x := range t.Reject {
				ts.Reject = append(ts.Reject, x.typ())
			}
			out.Targets = append(out.Targets, ts)
		}
	}
	return out
}

func coqKindOpt(k kyaml.Kind) string {
	switch k {
	case kyaml.ScalarNode:
		return "(Some KScalar)"
	case kyaml.MappingNode:
		return "(Some KMap)"
	case kyaml.SequenceNode:
		return "(Some KSeq)"
	}
	return "None"
}

func coqGvks(l []resid.Gvk) string {
	parts := []string{}
	for _, g := range l {
		parts = append(parts, fmt.Sprintf("(mkGvk %s %s %s)", coqStr(g.Group), coqStr(g.Version), coqStr(g.Kind)))
	}
	return "[" + strings.Join(parts, "; ") + "]"
}

// ====================================================================== document helpers

func c10ParseDocs(texts []string) ([]*kyaml.RNode, bool) {
	out := []*kyaml.RNode{}
	for _, t := range texts {
		n, err := kyaml.Parse(t)
		if err != nil || n == nil || n.YNode() == nil {
			return nil, false
		}
		out = append(out, n)
	}
	return out, true
}

// encSafe: every scalar the PathMatcher model may "encode" prints as its own text, list
// elements are scalars or mappings, and the fields list selectors look at are scalars.
func c10EncSafe(n *kyaml.Node, selFields map[string]bool, hasPrimitiveSel bool) bool {
	if n == nil {
		return false
	}
	scalarOK := func(s *kyaml.Node) bool {
		str, err := kyaml.String(s)
		return err == nil && strings.TrimSpace(str) == s.Value
	}
	switch n.Kind {
	case kyaml.DocumentNode:
		return len(n.Content) == 1 && c10EncSafe(n.Content[0], selFields, hasPrimitiveSel)
	case kyaml.ScalarNode:
		return true
	case kyaml.MappingNode:
		for i := 0; i+1 < len(n.Content); i += 2 {
			if !c10EncSafe(n.Content[i+1], selFields, hasPrimitiveSel) {
				return false
			}
		}
		return true
	case kyaml.SequenceNode:
		for _, e := range n.Content {
			switch e.Kind {
			case kyaml.ScalarNode:
				if !scalarOK(e) {
					return false
				}
			case kyaml.MappingNode:
				if hasPrimitiveSel {
					return false
				}
				for i := 0; i+1 < len(e.Content); i += 2 {
					v := e.Content[i+1]
					if selFields[e.Content[i].Value] {
						if v.Kind != kyaml.ScalarNode || !scalarOK(v) {
							return false
						}
					}
				}
			default:
				if hasPrimitiveSel {
					return false
				}
			}
			if !c10EncSafe(e, selFields, hasPrimitiveSel) {
				return false
			}
		}
		return true
	}
	return false
}

// selector parts of a PathMatcher path: pattern texts, field names, primitive selectors present
func c10PathSelectors(path []string) (pats []string, fields map[string]bool, prim bool) {
	fields = map[string]bool{}
	for _, p := range path {
		if kyaml.IsIdxNumber(p) || !kyaml.IsListIndex(p) {
			continue
		}
		f, v, err := kyaml.SplitIndexNameValue(p)
		if err != nil {
			continue
		}
		pats = append(pats, v)
		if f == "" {
			prim = true
		} else {
			fields[f] = true
		}
	}
	return
}

func c10HasDupKeys(n *kyaml.Node) bool {
	if n == nil {
		return false
	}
	if n.Kind == kyaml.MappingNode {
		seen := map[string]bool{}
		for i := 0; i+1 < len(n.Content); i += 2 {
			if seen[n.Content[i].Value] {
				return true
			}
			seen[n.Content[i].Value] = true
		}
	}
	for _, c := range n.Content {
		if c10HasDupKeys(c) {
			return true
		}
	}
	return false
}

// ====================================================================== child process (hang-prone calls)

type c10ChildReq struct {
	Kind   string            `json:"kind"` // match | repl | build
	Doc    string            `json:"doc,omitempty"`
	Docs   []string          `json:"docs,omitempty"`
	Path   []string          `json:"path,omitempty"`
	Create int               `json:"create,omitempty"`
	Repls  []c10Repl         `json:"repls,omitempty"`
	Files  map[string]string `json:"files,omitempty"`
}
type c10ChildResp struct {
	Cls     string      `json:"cls"`
	Msg     string      `json:"msg,omitempty"`
	After   string      `json:"after,omitempty"`  // Coq term
	Marked  string      `json:"marked,omitempty"` // Coq term
	NHits   int         `json:"nhits,omitempty"`
	Afters  string      `json:"afters,omitempty"` // Coq term (list)
	AfterY  []string    `json:"aftery,omitempty"` // the same documents as YAML
	Undec   [][2]string `json:"undec,omitempty"`  // (tag, text) pairs on which Node.Decode fails: the decodes oracle of the model
	NoEnc   string      `json:"noenc,omitempty"`  // the filter succeeded but a resulting document cannot be encoded: the encoder's error
	Output  string      `json:"output,omitempty"` // build output yaml
	Unrep   bool        `json:"unrep,omitempty"`  // result not representable as a Coq term
	Timeout bool        `json:"timeout,omitempty"`
}

func c10Exec(req c10ChildReq) (resp c10ChildResp) {
	switch req.Kind {
	case "match":
		doc, err := kyaml.Parse(req.Doc)
		if err != nil {
			return c10ChildResp{Cls: "parse-error"}
		}
		var val *kyaml.RNode
		cls, msg := protect(func() error {
			var e error
			val, e = doc.Pipe(&kyaml.PathMatcher{Path: req.Path, Create: kyaml.Kind(req.Create)})
			return e
		})
		resp.Cls, resp.Msg = cls, msg
		if cls != ClsOk {
			return resp
		}
		after, ok := coqNode(doc.YNode())
		if !ok {
			resp.Unrep = true
			return resp
		}
		resp.After = after
		if val != nil && val.YNode() != nil {
			resp.NHits = len(val.YNode().Content)
			for _, h := range val.YNode().Content {
				*h = kyaml.Node{Kind: kyaml.ScalarNode, Value: "HIT"}
			}
		}
		marked, ok := coqNode(doc.YNode())
		if !ok {
			resp.Unrep = true
			return resp
		}
		resp.Marked = marked
		return resp
	case "repl":
		nodes, ok := c10ParseDocs(req.Docs)
		if !ok {
			return c10ChildResp{Cls: "parse-error"}
		}
		f := replacement.Filter{}
		for _, r := range req.Repls {
			f.Replacements = append(f.Replacements, r.typ())
		}
		resp.Undec = c10UndecPairs(req)
		var out []*kyaml.RNode
		cls, msg := protect(func() error {
			var e error
			out, e = f.Filter(nodes)
			return e
		})
		resp.Cls, resp.Msg = cls, msg
		if cls != ClsOk {
			return resp
		}
		resp.AfterY, _ = c10TextsOfNodes(out)
		for _, n := range out {
			if _, e := n.MarshalJSON(); e != nil { // what ResMap.AsYaml does with every resource
				resp.NoEnc = e.Error()
				break
			}
		}
		t, ok := coqNodes(out)
		if !ok {
			resp.Unrep = true
			return resp
		}
		resp.Afters = t
		return resp
	case "build":
		out, cls, msg := c10Build(req.Files)
		return c10ChildResp{Cls: cls, Msg: msg, Output: out}
	}
	return c10ChildResp{Cls: "bad-request"}
}

// c10UndecPairs: the `decodes` oracle of the replacement model — go-yaml's Node.Decode on a scalar with a
// given tag and text. Shipped as the list of (tag, text) pairs on which it FAILS, for the typed tags that
// occur in the input documents and the scalar texts of the inputs and of the results of every prefix of
// the replacement list (every text a replacement writes is in the result of the prefix ending with it).
func c10UndecPairs(req c10ChildReq) [][2]string {
	tags, texts := map[string]bool{}, map[string]bool{}
	var walk func(n *kyaml.Node, collectTags bool)
	walk = func(n *kyaml.Node, collectTags bool) {
		if n == nil {
			return
		}
		if n.Kind == kyaml.ScalarNode {
			texts[n.Value] = true
			if collectTags {
				switch n.Tag {
				case "!!null", "!!int", "!!bool", "!!float":
					tags[n.Tag] = true
				}
			}
		}
		for _, c := range n.Content {
			walk(c, collectTags)
		}
	}
	if in, ok := c10ParseDocs(req.Docs); ok {
		for _, n := range in {
			walk(n.YNode(), true)
		}
	}
	for k := 1; k <= len(req.Repls); k++ {
		nodes, ok := c10ParseDocs(req.Docs)
		if !ok {
			break
		}
		f := replacement.Filter{}
		for _, r := range req.Repls[:k] {
			f.Replacements = append(f.Replacements, r.typ())
		}
		var out []*kyaml.RNode
		if cls, _ := protect(func() error {
			var e error
			out, e = f.Filter(nodes)
			return e
		}); cls != ClsOk {
			break
		}
		for _, n := range out {
			walk(n.YNode(), false)
		}
	}
	pairs := [][2]string{}
	for _, tg := range sortedKeys(tags) {
		for _, tx := range sortedKeys(texts) {
			var probe interface{}
			n := kyaml.Node{Kind: kyaml.ScalarNode, Tag: tg, Value: tx}
			if err := n.Decode(&probe); err != nil {
				pairs = append(pairs, [2]string{coqTag(tg), tx})
			}
		}
	}
	return pairs
}

func c10ChildMain() {
	in := bufio.NewReaderSize(os.Stdin, 1<<20)
	out := bufio.NewWriter(os.Stdout)
	for {
		line, err := in.ReadBytes('\n')
		if len(line) > 0 {
			var req c10ChildReq
			var resp c10ChildResp
			if e := json.Unmarshal(line, &req); e != nil {
				resp = c10ChildResp{Cls: "bad-request", Msg: e.Error()}
			} else {
				resp = c10Exec(req)
			}
			b, _ := json.Marshal(resp)
			out.Write(b)
			out.WriteByte('\n')
			out.Flush()
		}
		if err != nil {
			return
		}
	}
}

type c10Child struct {
	cmd   *exec.Cmd
	stdin io.WriteCloser
	lines chan []byte
}

func c10StartChild() (*c10Child, error) {
	exe, err := os.Executable()
	if err != nil {
		return nil, err
	}
	cmd := exec.Command(exe, "C10")
	cmd.Env = append(os.Environ(), "VERIF_C10_CHILD=1", "GOMEMLIMIT=1GiB")
	stdin, err := cmd.StdinPipe()
	if err != nil {
		return nil, err
	}
	stdout, err := cmd.StdoutPipe()
	if err != nil {
		return nil, err
	}
	cmd.Stderr = io.Discard
	if err := cmd.Start(); err != nil {
		return nil, err
	}
	c := &c10Child{cmd: cmd, stdin: stdin, lines: make(chan []byte, 1)}
	go func() {
		rd := bufio.NewReaderSize(stdout, 1<<20)
		for {
			l, err := rd.ReadBytes('\n')
			if len(l) > 0 {
				c.lines <- l
			}
			if err != nil {
				close(c.lines)
				return
			}
		}
	}()
	return c, nil
}

func (c *c10Child) kill() {
	if c == nil {
		return
	}
	c.stdin.Close()
	if c.cmd.Process != nil {
		c.cmd.Process.Kill()
	}
	go c.cmd.Wait()
}

// call sends one request; timedOut=true when no answer arrived in time (the child is then dead).
func (c *c10Child) call(req c10ChildReq, d time.Duration) (resp c10ChildResp, timedOut bool, err error) {
	b, _ := json.Marshal(req)
	if _, err := c.stdin.Write(append(b, '\n')); err != nil {
		return resp, false, err
	}
	select {
	case l, ok := <-c.lines:
		if !ok {
			return resp, false, fmt.Errorf("child exited")
		}
		if e := json.Unmarshal(l, &resp); e != nil {
			return resp, false, e
		}
		return resp, false, nil
	case <-time.After(d):
		return resp, true, nil
	}
}

type c10Job struct {
	req  c10ChildReq
	resp c10ChildResp
}

// c10RunJobs executes jobs in child processes (par at a time). A request that does not answer
// within the first timeout is re-run once in a fresh child with the longer timeout; only then
// is it classified as CDiverge.
func c10RunJobs(jobs []*c10Job, par int, t1, t2 time.Duration) error {
	if len(jobs) == 0 {
		return nil
	}
	if par > len(jobs) {
		par = len(jobs)
	}
	ch := make(chan *c10Job, len(jobs))
	for _, j := range jobs {
		ch <- j
	}
	close(ch)
	errs := make(chan error, par)
	for w := 0; w < par; w++ {
		go func() {
			var child *c10Child
			defer func() { child.kill() }()
			for j := range ch {
				done := false
				for attempt, d := range []time.Duration{t1, t2} {
					if child == nil {
						var err error
						child, err = c10StartChild()
						if err != nil {
							errs <- err
							return
						}
					}
					resp, to, err := child.call(j.req, d)
					if err != nil {
						// the child died (e.g. fatal stack overflow / out of memory): that is a non-return too
						child.kill()
						child = nil
						if attempt == 1 {
							j.resp = c10ChildResp{Cls: ClsDiverge, Timeout: true, Msg: "child died: " + err.Error()}
							done = true
						}
						continue
					}
					if to {
						child.kill()
						child = nil
						if attempt == 1 {
							j.resp = c10ChildResp{Cls: ClsDiverge, Timeout: true}
							done = true
						}
						continue
					}
					j.resp = resp
					done = true
					break
				}
				if !done {
					j.resp = c10ChildResp{Cls: ClsDiverge, Timeout: true}
				}
			}
			errs <- nil
		}()
	}
	var first error
	for w := 0; w < par; w++ {
		if e := <-errs; e != nil && first == nil {
			first = e
		}
	}
	return first
}

// hang-prone shape: Create with a list-entry path part
func c10HangProne(path []string, create bool) bool {
	if !create {
		return false
	}
	for _, p := range path {
		if !kyaml.IsIdxNumber(p) && kyaml.IsListIndex(p) {
			return true
		}
	}
	return false
}

// ====================================================================== in-process drivers

func c10Build(files map[string]string) (out string, cls string, msg string) {
	fs := c10MemFs(files)
	cls, msg = protect(func() error {
		k := krusty.MakeKustomizer(krusty.MakeDefaultOptions())
		m, err := k.Run(fs, "/app")
		if err != nil {
			return err
		}
		y, err := m.AsYaml()
		if err != nil {
			return err
		}
		out = string(y)
		return nil
	})
	return
}

var c10RF = provider.NewDefaultDepProvider().GetResourceFactory()

func c10ResMap(texts []string) (resmap.ResMap, error) {
	return resmap.NewFactory(c10RF).NewResMapFromBytes([]byte(strings.Join(texts, "---\n")))
}

func c10ResMapNodes(m resmap.ResMap) []*kyaml.RNode {
	out := []*kyaml.RNode{}
	for _, r := range m.Resources() {
		out = append(out, &r.RNode)
	}
	return out
}

func c10FsYaml(fss types.FsSlice) string {
	var b strings.Builder
	b.WriteString("fieldSpecs:\n")
	for _, f := range fss {
		fmt.Fprintf(&b, "- path: %s\n  create: %v\n", f.Path, f.CreateIfNotPresent)
		if f.Group != "" {
			fmt.Fprintf(&b, "  group: %s\n", f.Group)
		}
		if f.Version != "" {
			fmt.Fprintf(&b, "  version: %s\n", f.Version)
		}
		if f.Kind != "" {
			fmt.Fprintf(&b, "  kind: %s\n", f.Kind)
		}
	}
	return b.String()
}

func c10CoqFs(fss types.FsSlice) string {
	parts := []string{}
	for _, f := range fss {
		parts = append(parts, fmt.Sprintf("mkFs %s %s %s %s %s", coqStr(f.Group), coqStr(f.Version), coqStr(f.Kind), coqStr(f.Path), coqBool(f.CreateIfNotPresent)))
	}
	return "[" + strings.Join(parts, "; ") + "]"
}

func c10yq(s string) string { // a YAML double-quoted scalar
	b, _ := json.Marshal(s)
	return string(b)
}

// ====================================================================== families

var c10Names = []string{"x", "x-1", "ax", "x.y", "xzy", "x1", "app", "x"}
var c10NamePats = []string{"x", "x-1", "ax", "x.y", "xzy", "x.*", ".*", "x|ax", "x-1|ax", "[a-z]+", "x?", "(x|ax)-1", "x.", "^x", "x$", "a(", "x+", "", "", "x", "[ax]+", "x\\.y", "x[", ".+-1"}
var c10Kinds = [][2]string{{"apps/v1", "Deployment"}, {"apps/v1", "StatefulSet"}, {"v1", "Pod"}, {"v1", "ConfigMap"}, {"batch/v1", "CronJob"}, {"example.com/v1", "MyKind"}, {"v1", "Namespace"}, {"apiextensions.k8s.io/v1", "CustomResourceDefinition"}, {"apps/v1", "ReplicaSet"}, {"example.com/v1beta1", "Deployment"}}
var c10Namespaces = []string{"", "", "default", "ns", "ns-1", "ans"}
var c10Images = []string{"x:5000/app:1.0", "x:5000/x", "reg:5000/reg", "x:5000/x@sha256:abc", "x", "x:1", "x-1:1", "ax:2", "x.y:3", "xzy:1", "xzy", "reg:5000/x", "reg:5000/x:1", "reg:5000/x@sha256:abc", "x@sha256:abc", "x:1@sha256:abc", "docker.io/lib/x:1", "x:", "x@", "/x:1", "x.y", "x:1.2-rc_{a}", "x@sha512:abc", "y:1", "x:1:2", "app:v1", "reg/x.y:1"}
var c10ImgEntryNames = []string{"reg", "x", "x", "x-1", "ax", "x.y", "xzy", "reg:5000/x", "docker.io/lib/x", "x.*", "a(", "x|y", "[a-z]+", "x+", "^x", "", "x$", "y", "app", "x:1", "reg/x.y", ".", "x?"}
var c10LabelKeys = []string{"app", "tier", "x"}
var c10LabelVals = []string{"x", "x-1", "ax", "web"}
var c10LabelSels = []string{"", "", "", "app=x", "app==x", "app!=x", "app", "!app", "app=x,tier=web", "tier=web", "x", "app=ax", "app = x", "app in (x)", "app=x,"}

func c10PickN(r *Rng, l []string) string { return l[r.Intn(len(l))] }
func c10PickInt(r *Rng, l []int) int     { return l[r.Intn(len(l))] }

// ---------- resource generator (block YAML text) ----------

type c10Cont struct {
	Name  string
	Image string // raw YAML scalar text ("" = no image field)
}

type c10Res struct {
	APIVersion, Kind, Name, Namespace string
	Labels, Annos                     [][2]string
	Replicas                          string // raw YAML scalar text ("" = absent)
	Conts, Inits                      []c10Cont
	ContsRaw                          string // replaces the containers list by raw YAML (odd shapes)
	Prev                              [][3]string
	Extra                             string      // extra top-level YAML
	Data                              [][2]string `json:"Data,omitempty"` // ConfigMap data (default: k: v)
}

func (r c10Res) contPath() string {
	switch r.Kind {
	case "Pod", "MyKind", "CustomResourceDefinition":
		return "pod"
	case "CronJob":
		return "cron"
	case "ConfigMap", "Namespace":
		return "none"
	}
	return "tmpl"
}

func (r c10Res) yaml() string {
	var b strings.Builder
	fmt.Fprintf(&b, "apiVersion: %s\nkind: %s\nmetadata:\n  name: %s\n", r.APIVersion, r.Kind, r.Name)
	if r.Namespace != "" {
		fmt.Fprintf(&b, "  namespace: %s\n", r.Namespace)
	}
	if len(r.Labels) > 0 {
		b.WriteString("  labels:\n")
		for _, kv := range r.Labels {
			fmt.Fprintf(&b, "    %s: %s\n", kv[0], kv[1])
		}
	}
	annos := append([][2]string{}, r.Annos...)
	if len(r.Prev) > 0 {
		n, ns, k := []string{}, []string{}, []string{}
		for _, p := range r.Prev {
			n, ns, k = append(n, p[0]), append(ns, p[1]), append(k, p[2])
		}
		annos = append(annos, [2]string{"internal.config.kubernetes.io/previousNames", strings.Join(n, ",")},
			[2]string{"internal.config.kubernetes.io/previousNamespaces", strings.Join(ns, ",")},
			[2]string{"internal.config.kubernetes.io/previousKinds", strings.Join(k, ",")})
	}
	if len(annos) > 0 {
		b.WriteString("  annotations:\n")
		for _, kv := range annos {
			fmt.Fprintf(&b, "    %s: %s\n", kv[0], kv[1])
		}
	}
	conts := func(ind string, key string, cs []c10Cont) {
		if len(cs) == 0 {
			return
		}
		fmt.Fprintf(&b, "%s%s:\n", ind, key)
		for _, c := range cs {
			fmt.Fprintf(&b, "%s- name: %s\n", ind, c.Name)
			if c.Image != "" {
				fmt.Fprintf(&b, "%s  image: %s\n", ind, c.Image)
			}
		}
	}
	podspec := func(ind string) {
		if r.ContsRaw != "" {
			for _, l := range strings.Split(strings.TrimRight(r.ContsRaw, "\n"), "\n") {
				b.WriteString(ind + l + "\n")
			}
		} else {
			conts(ind, "containers", r.Conts)
		}
		conts(ind, "initContainers", r.Inits)
	}
	hasPod := len(r.Conts)+len(r.Inits) > 0 || r.ContsRaw != ""
	switch r.contPath() {
	case "none":
		if r.Kind == "ConfigMap" {
			if len(r.Data) > 0 {
				b.WriteString("data:\n")
				for _, kv := range r.Data {
					fmt.Fprintf(&b, "  %s: %s\n", kv[0], kv[1])
				}
			} else {
				b.WriteString("data:\n  k: v\n")
			}
		}
	case "pod":
		if r.Replicas != "" || hasPod {
			b.WriteString("spec:\n")
			if r.Replicas != "" {
				fmt.Fprintf(&b, "  replicas: %s\n", r.Replicas)
			}
			podspec("  ")
		}
	case "cron":
		b.WriteString("spec:\n  schedule: \"* * * * *\"\n")
		if hasPod {
			b.WriteString("  jobTemplate:\n    spec:\n      template:\n        spec:\n")
			podspec("          ")
		}
	default:
		if r.Replicas != "" || hasPod {
			b.WriteString("spec:\n")
			if r.Replicas != "" {
				fmt.Fprintf(&b, "  replicas: %s\n", r.Replicas)
			}
			if hasPod {
				b.WriteString("  template:\n    spec:\n")
				podspec("      ")
			}
		}
	}
	b.WriteString(r.Extra)
	return b.String()
}

var c10OddConts = []string{
	"containers: x\n", "containers: {a: b}\n", "containers:\n- x\n- name: c\n  image: x:1\n", "containers:\n- name: c\n  image: {a: b}\n",
	"containers:\n- name: c\n  image: null\n", "containers:\n- null\n- name: c\n  image: x:1\n", "containers: []\n", "containers:\n- name: c\n  image: [x]\n",
	"containers: null\n", "containers:\n- name: c\n  image: \"x:1\"\n- name: d\n  image: 'x'\n",
}

func c10GenRes(r *Rng, odd bool) c10Res {
	k := c10Kinds[r.Intn(len(c10Kinds))]
	res := c10Res{APIVersion: k[0], Kind: k[1], Name: c10PickN(r, c10Names), Namespace: c10PickN(r, c10Namespaces)}
	if res.Kind == "Namespace" || res.Kind == "CustomResourceDefinition" {
		res.Namespace = ""
	}
	for i := r.Intn(3); i > 0; i-- {
		key := c10PickN(r, c10LabelKeys)
		dup := false
		for _, kv := range res.Labels {
			dup = dup || kv[0] == key
		}
		if !dup {
			res.Labels = append(res.Labels, [2]string{key, c10PickN(r, c10LabelVals)})
		}
	}
	if r.Chance(30) {
		res.Annos = append(res.Annos, [2]string{c10PickN(r, c10LabelKeys), c10PickN(r, c10LabelVals)})
	}
	if res.contPath() != "none" {
		for i := r.Intn(4); i > 0; i-- {
			c := c10Cont{Name: c10PickN(r, c10Names)}
			if !r.Chance(8) {
				c.Image = c10PickN(r, c10Images)
				if strings.HasSuffix(c.Image, ":") || strings.HasSuffix(c.Image, "@") || c.Image == "x:1:2" {
					c.Image = c10yq(c.Image)
				}
			}
			if r.Chance(25) {
				res.Inits = append(res.Inits, c)
			} else {
				res.Conts = append(res.Conts, c)
			}
		}
		if odd && r.Chance(12) {
			res.ContsRaw = c10PickN(r, c10OddConts)
		}
		if r.Chance(55) {
			res.Replicas = c10PickN(r, []string{"1", "2", "\"2\"", "null", "{a: b}", "3", "[1]"})
			if !odd && (res.Replicas == "{a: b}" || res.Replicas == "[1]") {
				res.Replicas = "1"
			}
		}
	}
	if r.Chance(25) {
		n := 1 + r.Intn(2)
		for i := 0; i < n; i++ {
			res.Prev = append(res.Prev, [3]string{c10PickN(r, c10Names), c10PickN(r, []string{"default", "ns", "ns-1"}), c10PickN(r, []string{res.Kind, res.Kind, "Deployment", "Pod"})})
		}
	}
	if odd && r.Chance(1) { // malformed previous-id annotations
		res.Annos = append(res.Annos, [2]string{"internal.config.kubernetes.io/previousNames", "a,b"},
			[2]string{"internal.config.kubernetes.io/previousNamespaces", "default"},
			[2]string{"internal.config.kubernetes.io/previousKinds", res.Kind})
		res.Prev = nil
	}
	if odd && r.Chance(10) {
		res.Extra = c10PickN(r, []string{"other:\n  containers:\n  - name: q\n    image: x:9\n", "containers:\n- image: x\n", "status:\n  initContainers:\n  - image: ax:1\n"})
	}
	return res
}

// a resource list with unique (kind, name, namespace) so that it loads into a ResMap
func c10GenResList(r *Rng, n int, odd bool) []c10Res {
	out := []c10Res{}
	seen := map[string]bool{}
	for tries := 0; len(out) < n && tries < 50; tries++ {
		x := c10GenRes(r, odd)
		key := x.APIVersion + "|" + x.Kind + "|" + x.Name + "|" + x.Namespace
		if x.Namespace == "" || x.Namespace == "default" {
			key = x.APIVersion + "|" + x.Kind + "|" + x.Name + "|default"
		}
		if seen[key] {
			continue
		}
		seen[key] = true
		out = append(out, x)
	}
	return out
}

func c10Texts(l []c10Res) []string {
	out := []string{}
	for _, x := range l {
		out = append(out, x.yaml())
	}
	return out
}

// ====================================================================== case kinds

type c10Case struct {
	Kind   string    `json:"kind"`
	Pat    string    `json:"pat,omitempty"`
	Subj   string    `json:"subj,omitempty"`
	Image  *c10Image `json:"image,omitempty"`
	Doc    string    `json:"doc,omitempty"`
	Docs   []string  `json:"docs,omitempty"`
	Sel    *c10Sel   `json:"sel,omitempty"`
	RName  string    `json:"rname,omitempty"`
	RCount int64     `json:"rcount,omitempty"`
	Path   []string  `json:"path,omitempty"`
	PathS  string    `json:"paths,omitempty"`
	Create int       `json:"create,omitempty"`
	Repls  []c10Repl `json:"repls,omitempty"`
	ById   *c10Id    `json:"byId,omitempty"` // patch entry without target: the id of the patch body
}

// ---------- regexp ----------
func c10GenRegexText(r *Rng, depth int) string {
	atoms := []string{"a", "b", "x", "-", "\\.", ".", "[ab]", "[^a]", "[a-c1]", "1", "ab", "x-1", "\\d", "[a-z]+"}
	if depth <= 0 {
		return c10PickN(r, atoms)
	}
	switch r.Intn(12) {
	case 0, 1, 2:
		return c10PickN(r, atoms)
	case 3, 4:
		return c10GenRegexText(r, depth-1) + c10GenRegexText(r, depth-1)
	case 5:
		return c10GenRegexText(r, depth-1) + "|" + c10GenRegexText(r, depth-1)
	case 6:
		return "(" + c10GenRegexText(r, depth-1) + ")" + c10PickN(r, []string{"*", "+", "?", "", "{2}", "{1,2}"})
	case 7:
		return "(?:" + c10GenRegexText(r, depth-1) + ")" + c10PickN(r, []string{"*", "+", "?", ""})
	case 8:
		return "^" + c10GenRegexText(r, depth-1)
	case 9:
		return c10GenRegexText(r, depth-1) + "$"
	case 10:
		return c10PickN(r, atoms) + c10PickN(r, []string{"*", "+", "?", "*?", "+?"})
	default:
		return "(^|" + c10GenRegexText(r, depth-1) + ")" + c10PickN(r, []string{"", "*", "+"})
	}
}

func c10GenSubject(r *Rng) string {
	al := []string{"a", "b", "x", "-", ".", "1", "c", "ab", "x-1", "\n", "y", "z"}
	n := r.Intn(7)
	var b strings.Builder
	for i := 0; i < n; i++ {
		b.WriteString(c10PickN(r, al))
	}
	return b.String()
}

func c10RunRegex(run *Run, c c10Case) {
	re, err := regexp.Compile(c.Pat)
	if err != nil {
		run.Count("regex", "compile-error")
		run.Meta.Skipped++
		return
	}
	term, st := c10Pat(c.Pat)
	if st != 0 || !asciiOnly(c.Subj) {
		run.Count("regex", "outside-fragment")
		run.Meta.Skipped++
		return
	}
	obs := re.MatchString(c.Subj)
	run.Count("regex", fmt.Sprintf("match=%v", obs))
	run.AddCase(fmt.Sprintf("(KRegex %s %s %s)", term, coqStr(c.Subj), coqBool(obs)), c, obs)
}

// ---------- image value ----------
func c10GenImage(r *Rng) c10Image {
	im := c10Image{Name: c10PickN(r, c10ImgEntryNames)}
	if r.Chance(50) {
		im.NewName = c10PickN(r, []string{"new", "reg:5000/new", "x", "x.y"})
	}
	switch r.Intn(8) {
	case 0, 1:
		im.NewTag = c10PickN(r, []string{"v2", "latest", "a:b"})
	case 2:
		im.Digest = c10PickN(r, []string{"sha256:fff", "sha512:0"})
	case 3:
		im.NewTag, im.Digest = "v3", "sha256:eee"
	case 4, 5:
		im.TagSuffix = c10PickN(r, []string{"-s", "-dev"})
	case 6:
		im.TagSuffix, im.NewTag = "-s", "v9"
	}
	return im
}

func c10RunImageVal(run *Run, c c10Case) {
	doc, err := kyaml.Parse(c.Doc)
	if err != nil {
		run.Meta.Skipped++
		return
	}
	orig, ok0 := coqNode(doc.YNode())
	tab := newPtab()
	tab.add(c10ImgPattern(c.Image.Name))
	f := imagetag.Filter{ImageTag: c.Image.typ(), FsSlice: types.FsSlice{{Path: "image"}}}
	cls, _ := protect(func() error {
		_, e := f.Filter([]*kyaml.RNode{doc})
		return e
	})
	run.Count("imageval", cls)
	if ay, err := doc.String(); err == nil {
		c10Report(run, c10LawImageVal(c, cls, ay), c)
	}
	after, ok1 := coqNode(doc.YNode())
	if !ok0 || !ok1 || tab.bad {
		run.Meta.Skipped++
		return
	}
	if cls != ClsOk {
		after = orig
	}
	changed := cls == ClsOk && after != orig
	if changed {
		run.Count("imageval", "changed")
	}
	run.AddCase(fmt.Sprintf("(KImageVal %s %s %s %s %s)", tab.coq(), c.Image.coq(), orig, cls, after), c, changed)
	// the AST Go's parser yields for the pattern of this entry (hypothesis parse_lit of the theorems)
	t, st := c10Pat(c10ImgPattern(c.Image.Name))
	switch st {
	case 0:
		run.AddCase(fmt.Sprintf("(KImgAst %s (Some %s))", coqStr(c.Image.Name), t), c, false)
	case 1:
		run.AddCase(fmt.Sprintf("(KImgAst %s None)", coqStr(c.Image.Name)), c, false)
	}
}

// ---------- transformers over a ResMap ----------
func c10Transform(name, config string, texts []string) (cls string, origT, afterT string, ok bool, changed bool, afterY []string) {
	m, err := c10ResMap(texts)
	if err != nil {
		return "load-error", "", "", false, false, nil
	}
	origT, ok0 := coqNodes(c10ResMapNodes(m))
	for _, n := range c10ResMapNodes(m) {
		if c10HasDupKeys(n.YNode()) {
			return "dup-keys", "", "", false, false, nil
		}
	}
	p := krusty.VerifC10Transformer(name)
	cls, _ = protect(func() error {
		if e := p.Config(nil, []byte(config)); e != nil {
			return fmt.Errorf("config: %w", e)
		}
		return p.Transform(m)
	})
	afterT, ok1 := coqNodes(c10ResMapNodes(m))
	if cls == ClsOk {
		afterY, _ = c10TextsOfNodes(c10ResMapNodes(m))
	}
	if cls != ClsOk {
		afterT = origT
	}
	return cls, origT, afterT, ok0 && ok1, cls == ClsOk && afterT != origT, afterY
}

func c10RunImageTr(run *Run, c c10Case, imgFs types.FsSlice) {
	cfg := "imageTag:\n  name: " + c10yq(c.Image.Name) + "\n  newName: " + c10yq(c.Image.NewName) + "\n  newTag: " + c10yq(c.Image.NewTag) +
		"\n  digest: " + c10yq(c.Image.Digest) + "\n  tagSuffix: " + c10yq(c.Image.TagSuffix) + "\n" + c10FsYaml(imgFs)
	cls, orig, after, ok, changed, afterY := c10Transform("ImageTagTransformer", cfg, c.Docs)
	run.Count("imagetr", cls)
	if cls != "load-error" && cls != "dup-keys" {
		c10Report(run, c10LawImageTr(c, cls, afterY), c)
	}
	tab := newPtab()
	tab.add(c10ImgPattern(c.Image.Name))
	if !ok || tab.bad {
		run.Meta.Skipped++
		return
	}
	if changed {
		run.Count("imagetr", "changed")
	}
	run.AddCase(fmt.Sprintf("(KImageTr %s %s %s %s %s)", tab.coq(), c.Image.coq(), orig, cls, after), c, changed)
}

func c10RunReplica(run *Run, c c10Case, repFs types.FsSlice) {
	cfg := "replica:\n  name: " + c10yq(c.RName) + "\n  count: " + strconv.FormatInt(c.RCount, 10) + "\n" + c10FsYaml(repFs)
	cls, orig, after, ok, changed, afterY := c10Transform("ReplicaCountTransformer", cfg, c.Docs)
	run.Count("replica", cls)
	if cls != "load-error" && cls != "dup-keys" {
		c10Report(run, c10LawReplica(c, cls, afterY), c)
	}
	if !ok {
		run.Meta.Skipped++
		return
	}
	if changed {
		run.Count("replica", "changed")
	}
	run.AddCase(fmt.Sprintf("(KReplica (mkReplica %s %s) %s %s %s)", coqStr(c.RName), coqStr(strconv.FormatInt(c.RCount, 10)), orig, cls, after), c, changed)
}

// ---------- Select ----------
func c10AnchorText(p string) string {
	if p == "" {
		return p
	}
	return "^(?:" + p + ")$"
}

func c10ClusterScoped(nodes []*kyaml.RNode, extra ...resid.Gvk) []resid.Gvk {
	seen := map[string]bool{}
	out := []resid.Gvk{}
	add := func(g resid.Gvk) {
		k := g.Group + "|" + g.Version + "|" + g.Kind
		if seen[k] {
			return
		}
		seen[k] = true
		if g.IsClusterScoped() {
			out = append(out, g)
		}
	}
	for _, n := range nodes {
		g := resid.GvkFromNode(n)
		add(g)
		// previous kinds
		anns := n.GetAnnotations()
		for _, k := range strings.Split(anns["internal.config.kubernetes.io/previousKinds"], ",") {
			add(resid.Gvk{Group: g.Group, Version: g.Version, Kind: k})
		}
	}
	for _, g := range extra {
		add(g)
	}
	return out
}

func c10GenSel(r *Rng) c10Sel {
	s := c10Sel{}
	if r.Chance(60) {
		s.Name = c10PickN(r, c10NamePats)
	}
	if r.Chance(40) {
		s.Kind = c10PickN(r, []string{"Deployment", "Deploy.*", "Pod|Deployment", "Pod", ".*Set", "MyKind", "Dep", "eployment", "", "Namespace", "[A-Z][a-z]+"})
	}
	if r.Chance(20) {
		s.Group = c10PickN(r, []string{"apps", "app", "apps|batch", "example.com", "example.com", ".*", "exampleXcom"})
	}
	if r.Chance(15) {
		s.Version = c10PickN(r, []string{"v1", "v1.*", "v", "v1beta1"})
	}
	if r.Chance(40) {
		s.Namespace = c10PickN(r, []string{"ns", "ns-1", "default", "n", "ns.*", ".*", "ans|ns", "_non_namespaceable_", "a("})
	}
	if r.Chance(40) {
		s.Lab = c10PickN(r, c10LabelSels)
	}
	if r.Chance(20) {
		s.Ann = c10PickN(r, c10LabelSels)
	}
	return s
}

// is the selector text inside the grammar of KV.Res.Selector.simple_lsel, or definitely a k8s parse error?
func c10SimpleLsel(s string) bool {
	if s == "" {
		return true
	}
	for _, req := range strings.Split(s, ",") {
		r := req
		r = strings.TrimPrefix(r, "!")
		for _, op := range []string{"!=", "==", "="} {
			if i := strings.Index(r, op); i >= 0 {
				r = r[:i] + r[i+len(op):]
				break
			}
		}
		if r == "" || strings.ContainsAny(r, " ()=!,") {
			return false
		}
	}
	return true
}

func c10RunSelect(run *Run, c c10Case) {
	m, err := c10ResMap(c.Docs)
	if err != nil {
		run.Count("select", "load-error")
		run.Meta.Skipped++
		return
	}
	nodes := c10ResMapNodes(m)
	docs, ok := coqNodes(nodes)
	var got []int
	cls, _ := protect(func() error {
		rs, e := m.Select(*c.Sel.typ())
		if e != nil {
			return e
		}
		all := m.Resources()
		for _, x := range rs {
			for i, y := range all {
				if x == y {
					got = append(got, i)
				}
			}
		}
		return nil
	})
	run.Count("select", cls)
	c10Report(run, c10LawSelect(c, cls, got), c)
	tab := newPtab()
	for _, p := range []string{c.Sel.Group, c.Sel.Version, c.Sel.Kind, c.Sel.Name, c.Sel.Namespace} {
		tab.add(c10AnchorText(p))
	}
	// selector texts outside the model's grammar must be k8s parse errors to be representable
	for _, s := range []string{c.Sel.Lab, c.Sel.Ann} {
		if !c10SimpleLsel(s) {
			if _, e := kyaml.NewMapRNode(nil).MatchesLabelSelector(s); e == nil {
				run.Count("select", "selector-outside-grammar")
				run.Meta.Skipped++
				return
			}
		}
	}
	if !ok || tab.bad {
		run.Meta.Skipped++
		return
	}
	idx := []string{}
	for _, i := range got {
		idx = append(idx, coqNat(i))
	}
	if len(got) > 0 {
		run.Count("select", fmt.Sprintf("selected=%d", len(got)))
	}
	cs := c10ClusterScoped(nodes)
	run.AddCase(fmt.Sprintf("(KSelect %s %s %s %s %s [%s])", tab.coq(), coqGvks(cs), c.Sel.coq(), docs, cls, strings.Join(idx, "; ")), c, len(got) > 0)
}

// ---------- PatchTransformer: which resources a patches: entry applies to ----------
func c10PatchConfig(c c10Case) string {
	ann := "      annotations:\n        c10-patched: \"yes\"\n"
	if c.Sel != nil {
		b, _ := json.Marshal(c.Sel)
		return "target: " + string(b) + "\npatch: |-\n  apiVersion: v1\n  kind: NotImportant\n  metadata:\n    name: not-important\n" + strings.ReplaceAll(ann, "      ", "    ")
	}
	av := c.ById.Version
	if c.ById.Group != "" {
		av = c.ById.Group + "/" + c.ById.Version
	}
	body := "patch: |-\n  apiVersion: " + av + "\n  kind: " + c.ById.Kind + "\n  metadata:\n    name: " + yq(c.ById.Name) + "\n"
	if c.ById.Namespace != "" {
		body += "    namespace: " + yq(c.ById.Namespace) + "\n"
	}
	return body + strings.ReplaceAll(ann, "      ", "    ")
}

func c10RunPatch(run *Run, c c10Case) {
	m, err := c10ResMap(c.Docs)
	if err != nil {
		run.Count("patch", "load-error")
		run.Meta.Skipped++
		return
	}
	nodes := c10ResMapNodes(m)
	docs, ok := coqNodes(nodes)
	before, okb := c10TextsOfNodes(nodes)
	for _, n := range nodes {
		if c10HasDupKeys(n.YNode()) {
			ok = false
		}
	}
	extraGvk := []resid.Gvk{}
	if c.ById != nil {
		extraGvk = append(extraGvk, resid.Gvk{Group: c.ById.Group, Version: c.ById.Version, Kind: c.ById.Kind})
	}
	csTerm := coqGvks(c10ClusterScoped(nodes, extraGvk...))
	p := krusty.VerifC10Transformer("PatchTransformer")
	cls, _ := protect(func() error {
		h := resmap.NewPluginHelpers(nil, nil, resmap.NewFactory(c10RF), nil)
		if e := p.Config(h, []byte(c10PatchConfig(c))); e != nil {
			return fmt.Errorf("config: %w", e)
		}
		return p.Transform(m)
	})
	run.Count("patch", cls)
	changed := []string{}
	nchanged := 0
	if cls == ClsOk {
		after, oka := c10TextsOfNodes(c10ResMapNodes(m))
		if !oka || !okb || len(after) != len(before) {
			run.Meta.Skipped++
			return
		}
		for i := range before {
			if before[i] != after[i] {
				changed = append(changed, coqNat(i))
				nchanged++
			}
		}
	}
	tab := newPtab()
	entry := ""
	if c.Sel != nil {
		for _, pat := range []string{c.Sel.Group, c.Sel.Version, c.Sel.Kind, c.Sel.Name, c.Sel.Namespace} {
			tab.add(c10AnchorText(pat))
		}
		for _, t := range []string{c.Sel.Lab, c.Sel.Ann} {
			if !c10SimpleLsel(t) {
				if _, e := kyaml.NewMapRNode(nil).MatchesLabelSelector(t); e == nil {
					run.Count("patch", "selector-outside-grammar")
					run.Meta.Skipped++
					return
				}
			}
		}
		entry = "(PTarget " + c.Sel.coq() + ")"
		run.Count("patch", "targeted")
	} else {
		entry = "(PById " + c.ById.coq() + ")"
		run.Count("patch", "by-id")
	}
	if !ok || tab.bad {
		run.Meta.Skipped++
		return
	}
	if nchanged > 0 {
		run.Count("patch", fmt.Sprintf("changed=%d", nchanged))
	}
	run.AddCase(fmt.Sprintf("(KPatch %s %s %s %s %s [%s])", tab.coq(), csTerm, entry, docs, cls, strings.Join(changed, "; ")), c, nchanged > 0)
}

// ---------- SmarterPathSplitter ----------
var c10SplitPaths = []string{"spec.containers.[name=x].image", "metadata.annotations.[a.b.c]", "a.[b=c.d].e", "[a.b", "a\\.b.c", ".a", "a..b", "",
	"[x=1.2.3]", "a.[b", "[", "a.[b.c=d.e].f.[g.h]", "a.[b=c]", "a.[b]", "a.[[b.c]].d", "a.[b=c\\.d].e", "metadata.labels.[app.kubernetes.io/name]",
	"a.[=x.y].b", "spec.template.spec.containers.[name=x.y].image", "a.b.", "a.[b.=.c]", "[a.b].[c.d=e]", "a.[b.c", "\\.a", "a\\", "a.[].b", "a.[.]"}

func c10GenSplitPath(r *Rng) string {
	if r.Chance(50) {
		return c10PickN(r, c10SplitPaths)
	}
	parts := []string{"a", "b", "[", "]", ".", "=", "x", "\\", "[a", "b]", "c=d"}
	n := 1 + r.Intn(8)
	var b strings.Builder
	for i := 0; i < n; i++ {
		b.WriteString(c10PickN(r, parts))
	}
	return b.String()
}

func c10RunSplit(run *Run, c c10Case) {
	got := kutils.SmarterPathSplitter(c.PathS, ".")
	c10Report(run, c10LawSplit(c, got), c)
	run.Count("split", fmt.Sprintf("parts=%d", len(got)))
	run.AddCase(fmt.Sprintf("(KSplit %s %s)", coqStr(c.PathS), coqStrList(got)), c, len(got) > 1)
}

// ---------- PathMatcher ----------
var c10MatchDocs = []string{
	"spec:\n  containers:\n  - name: x\n    image: x:1\n  - name: ax\n    image: ax:2\n  - name: x-1\n    image: q\n  - name: x.y\n",
	"spec:\n  containers:\n  - name: xzy\n    image: i\n  - name: x.y\n    image: j\n",
	"spec:\n  containers: []\n",
	"spec: {}\n",
	"spec:\n  containers: null\n",
	"spec: null\n",
	"spec:\n  args:\n  - x\n  - ax\n  - x-1\n  - \"1\"\n",
	"spec:\n  containers:\n  - name: x\n    ports:\n    - port: 80\n    - port: 8080\n  - name: y\n",
	"spec:\n  containers:\n  - x\n  - name: x\n",
	"spec:\n  containers:\n    name: x\n",
	"metadata:\n  name: x\n  labels:\n    app: x\n  annotations: {}\n",
	"spec:\n  containers:\n  - name: x\n    image: a\n  - name: x\n    image: b\n",
	"a:\n- - p\n  - q\n- - r\n",
	"spec:\n  containers:\n  - null\n  - name: x\n",
	"name: \"\"\nspec: x\n",
}
var c10MatchPaths = [][]string{
	{"spec", "containers", "[name=x]", "image"}, {"spec", "containers", "[name=x]"}, {"spec", "containers", "[name=^x$]", "image"},
	{"spec", "containers", "[name=^zz$]", "image"}, {"spec", "containers", "[name=zz]", "image"}, {"spec", "containers", "[name=x.y]", "image"},
	{"spec", "containers", "*", "image"}, {"spec", "containers", "*", "name"}, {"spec", "containers", "0", "image"}, {"spec", "containers", "1"},
	{"spec", "containers", "4", "image"}, {"spec", "containers", "3", "name"}, {"spec", "args", "[=x]"}, {"spec", "args", "[=^x$]"}, {"spec", "args", "[=zz]"},
	{"spec", "args", "[=^zz$]"}, {"spec", "args", "0"}, {"spec", "args", "*"}, {"spec", "containers", "[name=x]", "ports", "[port=80]", "port"},
	{"spec", "containers", "[name=x]", "ports", "*", "port"}, {"metadata", "labels", "app"}, {"metadata", "annotations", "k"}, {"metadata", "name"},
	{"spec", "replicas"}, {"spec", "template", "spec", "containers", "[name=x]", "image"}, {"spec", "containers", "[name=a(]", "image"},
	{"spec", "containers", "[name]"}, {}, {"spec"}, {"a", "*", "*"}, {"a", "0", "1"}, {"a", "*", "[=p]"}, {"spec", "containers", "[name=x|ax]", "image"},
	{"spec", "containers", "[name=.*]", "image"}, {"spec", "containers", "[name=x]", "0"}, {"spec", "containers", "[name=x]", "*"}, {"spec", "", "x"},
	{"", "spec"}, {"name", ""}, {"spec", "containers", "-0"}, {"spec", "containers", "+1", "name"}, {"spec", "containers", "-1"}, {"spec", "x", "0", "y"},
	{"spec", "x", "[name=x]", "y"}, {"spec", "x", "[=v]"}, {"spec", "containers", "[name=x+]", "image"}, {"spec", "containers", "[image=^x]", "name"},
	{"spec", "containers", "[name=x]", "image", "z"}, {"spec", "containers", "name"},
}

// (document, path to a list, length of that list)
var c10MatchPairs = []struct {
	doc    int
	prefix []string
	n      int
}{{0, []string{"spec", "containers"}, 4}, {1, []string{"spec", "containers"}, 2}, {2, []string{"spec", "containers"}, 0}, {6, []string{"spec", "args"}, 4},
	{7, []string{"spec", "containers", "[name=x]", "ports"}, 2}, {12, []string{"a"}, 2}, {12, []string{"a", "0"}, 2}, {4, []string{"spec", "containers"}, 0}, {3, []string{"spec", "containers"}, 0}}

func c10RunMatchJob(c c10Case) *c10Job {
	return &c10Job{req: c10ChildReq{Kind: "match", Doc: c.Doc, Path: c.Path, Create: c.Create}}
}

func c10EmitMatch(run *Run, c c10Case, resp c10ChildResp) {
	if resp.Cls == "parse-error" || resp.Cls == "bad-request" {
		run.Meta.Skipped++
		return
	}
	doc, err := kyaml.Parse(c.Doc)
	if err != nil {
		run.Meta.Skipped++
		return
	}
	orig, ok := coqNode(doc.YNode())
	pats, fields, prim := c10PathSelectors(c.Path)
	tab := newPtab()
	for _, p := range pats {
		tab.add(p)
	}
	run.Count("match", resp.Cls)
	if c.Create != 0 {
		run.Count("match", "create")
	}
	if !ok || resp.Unrep || tab.bad || !c10EncSafe(doc.YNode(), fields, prim) || c10HasDupKeys(doc.YNode()) {
		run.Count("match", "skipped-domain")
		run.Meta.Skipped++
		return
	}
	for _, p := range c.Path {
		if _, err := strconv.Atoi(p); err != nil && len(p) > 0 && (p[0] == '+' || p[0] == '-' || (p[0] >= '0' && p[0] <= '9')) {
			if e, ok := err.(*strconv.NumError); ok && e.Err == strconv.ErrRange {
				run.Meta.Skipped++
				return
			}
		}
	}
	after, marked := resp.After, resp.Marked
	if resp.Cls != ClsOk {
		after, marked = orig, orig
	}
	ns := []string{}
	if kyaml.IsValueNonString("") {
		ns = append(ns, "")
	}
	if resp.NHits > 0 {
		run.Count("match", "hits>0")
	}
	run.AddCase(fmt.Sprintf("(KMatch %s %s %s %s %s %s %s %s %d)", tab.coq(), coqStrList(ns), coqKindOpt(kyaml.Kind(c.Create)),
		coqStrList(c.Path), orig, resp.Cls, after, marked, resp.NHits), c, resp.NHits > 0 || (resp.Cls == ClsOk && after != orig))
}

// ---------- replacement.Filter ----------
var c10ReplFieldPaths = []string{"spec.template.spec.containers.[name=x].image", "spec.containers.[name=x].image", "metadata.annotations.k", "metadata.labels.app",
	"spec.replicas", "metadata.name", "spec.template.spec.containers.*.image", "spec.template.spec.containers.0.image", "spec.containers.[name=x.y].image",
	"spec.template.spec.containers.[name=ax].image", "metadata.annotations.[a.b/c]", "spec.containers.[name=^zz$].image", "spec.containers.[name=zz].image",
	"spec.containers.[name=x-1].name", "data.k", "spec.template.spec.initContainers.[name=x].image", "spec.new.field", "spec.containers.[name=x]"}

func c10GenOpts(r *Rng, target bool) *c10Opts {
	if r.Chance(55) {
		return nil
	}
	o := &c10Opts{}
	if r.Chance(60) {
		o.Delimiter = c10PickN(r, []string{":", "/", ".", "-", "::"})
		o.Index = r.Intn(5) - 1
	}
	if target && r.Chance(50) {
		o.Create = true
	}
	return o
}

func c10GenIdSel(r *Rng, l []c10Res) c10Id {
	id := c10Id{}
	var x c10Res
	if len(l) > 0 {
		x = l[r.Intn(len(l))]
	}
	if r.Chance(75) {
		id.Kind = x.Kind
		if r.Chance(15) {
			id.Kind = c10PickN(r, []string{"Deployment", "Pod", "Dep"})
		}
	}
	if r.Chance(65) {
		id.Name = x.Name
		if r.Chance(25) {
			id.Name = c10PickN(r, c10Names)
		}
	}
	if r.Chance(20) {
		id.Namespace = c10PickN(r, []string{"default", "ns", "ns-1", x.Namespace})
	}
	if r.Chance(10) {
		gv := strings.Split(x.APIVersion, "/")
		if len(gv) == 2 {
			id.Group, id.Version = gv[0], gv[1]
		} else {
			id.Version = x.APIVersion
		}
	}
	return id
}

// field paths that exist in (or can be created in) a given resource
func c10PathsFor(r *Rng, x c10Res, target bool) []string {
	out := []string{"metadata.name"}
	for _, kv := range x.Labels {
		out = append(out, "metadata.labels."+kv[0])
	}
	for _, kv := range x.Annos {
		out = append(out, "metadata.annotations."+kv[0])
	}
	cp := map[string]string{"pod": "spec.containers", "tmpl": "spec.template.spec.containers", "cron": "spec.jobTemplate.spec.template.spec.containers"}[x.contPath()]
	if cp != "" {
		for _, c := range x.Conts {
			if c.Image != "" {
				out = append(out, cp+".[name="+c.Name+"].image", cp+".[name="+c.Name+"].image")
			}
			out = append(out, cp+".[name="+c.Name+"].name")
		}
		if len(x.Conts) > 0 {
			out = append(out, cp+".0.image", cp+".*.image", cp+".*.name")
		}
		ip := strings.Replace(cp, "containers", "initContainers", 1)
		for _, c := range x.Inits {
			out = append(out, ip+".[name="+c.Name+"].image")
		}
	}
	if x.Replicas != "" && x.contPath() != "cron" && x.contPath() != "none" {
		out = append(out, "spec.replicas")
	}
	if target {
		out = append(out, "metadata.annotations.copied", "metadata.labels.copied", "spec.extra.field")
		if cp != "" {
			out = append(out, cp+".[name=new].image", cp+".[name=x].image", cp+".[name=^zz$].image", cp+".[name=x.y].image")
		}
	}
	return out
}

// c10GenSharedSource: replacement 1 copies a mapping or a list (whole data, metadata.labels, a
// containers list) from one resource into the same field of two or three others; replacement 2 then
// writes a scalar into a child of exactly one of the copies. With value semantics only that copy changes.
func c10GenSharedSource(r *Rng) ([]c10Res, []c10Repl) {
	pool := []string{"x", "x-1", "ax", "x.y", "xzy", "x1", "app", "web", "api"}
	for i := len(pool) - 1; i > 0; i-- {
		j := r.Intn(i + 1)
		pool[i], pool[j] = pool[j], pool[i]
	}
	nt := 2 + r.Intn(2)
	names := pool[:nt+1] // names[0] is the source
	var res []c10Res
	var path, child string
	variant := r.Intn(3)
	switch variant {
	case 0: // whole data of a ConfigMap
		path, child = "data", "data.endpoint"
		for i, n := range names {
			x := c10Res{APIVersion: "v1", Kind: "ConfigMap", Name: n, Labels: [][2]string{{"app", "cfg"}}}
			if i == 0 {
				x.Data = [][2]string{{"endpoint", "e0"}, {"mode", "m0"}}
			} else {
				x.Data = [][2]string{{"old", "o" + strconv.Itoa(i)}}
			}
			res = append(res, x)
		}
	case 1: // metadata.labels
		path, child = "metadata.labels", "metadata.labels.app"
		kinds := [][2]string{{"apps/v1", "Deployment"}, {"v1", "ConfigMap"}, {"apps/v1", "StatefulSet"}}
		k := kinds[r.Intn(len(kinds))]
		for i, n := range names {
			x := c10Res{APIVersion: k[0], Kind: k[1], Name: n, Labels: [][2]string{{"app", "a" + strconv.Itoa(i)}}}
			if i == 0 {
				x.Labels = append(x.Labels, [2]string{"tier", "web"})
			}
			res = append(res, x)
		}
	default: // a containers list
		path = "spec.template.spec.containers"
		cn := c10PickN(r, []string{"main", "web", "db"})
		child = path + ".[name=" + cn + "].image"
		for i, n := range names {
			x := c10Res{APIVersion: "apps/v1", Kind: "Deployment", Name: n, Labels: [][2]string{{"app", "d"}}}
			if i == 0 {
				x.Conts = []c10Cont{{Name: cn, Image: "img:1"}, {Name: "side", Image: "side:2"}}
			} else {
				x.Conts = []c10Cont{{Name: "old" + strconv.Itoa(i), Image: "o:" + strconv.Itoa(i)}}
			}
			res = append(res, x)
		}
	}
	src := res[0]
	r1 := c10Repl{Source: &c10Source{c10Id: c10Id{Kind: src.Kind, Name: src.Name}, FieldPath: path}}
	if r.Chance(50) {
		// one target selector over the kind, the source itself rejected
		r1.Targets = []c10Target{{Select: &c10Sel{c10Id: c10Id{Kind: src.Kind}}, Reject: []c10Sel{{c10Id: c10Id{Name: src.Name}}}, FieldPaths: []string{path}}}
	} else {
		for _, t := range res[1:] {
			tg := c10Target{Select: &c10Sel{c10Id: c10Id{Kind: t.Kind, Name: t.Name}}, FieldPaths: []string{path}}
			if r.Chance(30) {
				tg.Options = &c10Opts{Create: true}
			}
			r1.Targets = append(r1.Targets, tg)
		}
	}
	one := res[1+r.Intn(nt)]
	r2 := c10Repl{Source: &c10Source{c10Id: c10Id{Kind: src.Kind, Name: src.Name}, FieldPath: "metadata.name"},
		Targets: []c10Target{{Select: &c10Sel{c10Id: c10Id{Kind: one.Kind, Name: one.Name}}, FieldPaths: []string{child}}}}
	if r.Chance(25) {
		r2.Targets[0].Options = &c10Opts{Delimiter: ":", Index: 0}
	}
	return res, []c10Repl{r1, r2}
}

func c10GenRepl(r *Rng, l []c10Res) c10Repl {
	if r.Chance(12) || len(l) == 0 {
		return c10GenReplRandom(r, l)
	}
	if r.Chance(18) {
		// a target with several ids selected through more than one of them, written non-idempotently
		withPrev := []c10Res{}
		for _, x := range l {
			if len(x.Prev) > 0 {
				withPrev = append(withPrev, x)
			}
		}
		if len(withPrev) > 0 {
			tg := withPrev[r.Intn(len(withPrev))]
			src := l[r.Intn(len(l))]
			rp := c10Repl{Source: &c10Source{c10Id: c10Id{Kind: src.Kind, Name: src.Name, Namespace: src.Namespace}, FieldPath: "metadata.name"}}
			sel := c10Sel{}
			switch r.Intn(4) {
			case 0, 1:
				sel.Kind = tg.Kind
			case 2:
				sel.Kind = tg.Prev[0][2]
			}
			t := c10Target{Select: &sel, FieldPaths: []string{c10PickN(r, []string{"metadata.annotations.copied", "metadata.labels.copied"})},
				Options: &c10Opts{Delimiter: c10PickN(r, []string{"-", ":", "/", "::"}), Index: c10PickInt(r, []int{-1, -1, 4, 9, 1}), Create: true}}
			rp.Targets = []c10Target{t}
			return rp
		}
	}
	rp := c10Repl{}
	src := l[r.Intn(len(l))]
	rp.Source = &c10Source{c10Id: c10Id{Kind: src.Kind, Name: src.Name}}
	if r.Chance(30) {
		rp.Source.Namespace = src.Namespace
	}
	if r.Chance(15) {
		rp.Source.Name = ""
	}
	if r.Chance(85) {
		rp.Source.FieldPath = c10PickN(r, c10PathsFor(r, src, false))
	}
	if r.Chance(22) {
		rp.Source.Options = &c10Opts{Delimiter: c10PickN(r, []string{":", "/", ".", "-"}), Index: c10PickInt(r, []int{0, 0, 0, 0, 0, 0, 1, 1, 2, -1})}
	}
	nt := 1 + r.Intn(2)
	for i := 0; i < nt; i++ {
		tg := l[r.Intn(len(l))]
		t := c10Target{}
		s := c10Sel{}
		if r.Chance(70) {
			s.Kind = tg.Kind
		}
		if r.Chance(60) {
			s.Name = tg.Name
			if len(tg.Prev) > 0 && r.Chance(40) {
				s.Name = tg.Prev[r.Intn(len(tg.Prev))][0]
			}
		}
		if r.Chance(15) {
			s.Namespace = tg.Namespace
		}
		if r.Chance(20) {
			s.Lab = c10PickN(r, c10LabelSels)
		}
		if r.Chance(8) {
			s.Ann = c10PickN(r, c10LabelSels)
		}
		t.Select = &s
		if r.Chance(25) {
			rj := c10Sel{}
			o := l[r.Intn(len(l))]
			if r.Chance(70) {
				rj.Name = o.Name
			} else {
				rj.Lab = c10PickN(r, c10LabelSels)
			}
			t.Reject = append(t.Reject, rj)
		}
		np := 1
		if r.Chance(20) {
			np = 2
		}
		for j := 0; j < np; j++ {
			t.FieldPaths = append(t.FieldPaths, c10PickN(r, c10PathsFor(r, tg, true)))
		}
		if r.Chance(45) {
			t.Options = &c10Opts{}
			if r.Chance(55) {
				t.Options.Delimiter = c10PickN(r, []string{":", "/", ".", "-", "::"})
				t.Options.Index = c10PickInt(r, []int{-1, -1, -1, 0, 1, 2, 3, 6})
			}
			t.Options.Create = r.Chance(55)
		}
		for _, fp := range t.FieldPaths {
			if (strings.Contains(fp, "copied") || strings.Contains(fp, "spec.extra") || strings.Contains(fp, "[name=new]")) && r.Chance(85) {
				if t.Options == nil {
					t.Options = &c10Opts{}
				}
				t.Options.Create = true
			}
		}
		rp.Targets = append(rp.Targets, t)
	}
	return rp
}

func c10GenReplRandom(r *Rng, l []c10Res) c10Repl {
	rp := c10Repl{}
	if r.Chance(12) {
		v := c10PickN(r, []string{"lit", "a:b:c", "", "x/y"})
		rp.SourceValue = &v
		if r.Chance(10) {
			rp.Source = &c10Source{c10Id: c10GenIdSel(r, l)}
		}
	} else if !r.Chance(3) {
		rp.Source = &c10Source{c10Id: c10GenIdSel(r, l), Options: c10GenOpts(r, false)}
		if r.Chance(80) {
			rp.Source.FieldPath = c10PickN(r, c10ReplFieldPaths)
		}
	}
	if r.Chance(3) {
		rp.NilTargets = true
		return rp
	}
	nt := 1 + r.Intn(2)
	for i := 0; i < nt; i++ {
		t := c10Target{Options: c10GenOpts(r, true)}
		if !r.Chance(3) {
			s := c10Sel{c10Id: c10GenIdSel(r, l)}
			if r.Chance(25) {
				s.Lab = c10PickN(r, c10LabelSels)
			}
			if r.Chance(10) {
				s.Ann = c10PickN(r, c10LabelSels)
			}
			t.Select = &s
		}
		for j := r.Intn(3); j > 0; j-- {
			rj := c10Sel{}
			if r.Chance(70) {
				rj.c10Id = c10GenIdSel(r, l)
			}
			if r.Chance(30) {
				rj.Lab = c10PickN(r, c10LabelSels)
			}
			t.Reject = append(t.Reject, rj)
		}
		for j := r.Intn(3); j > 0; j-- {
			t.FieldPaths = append(t.FieldPaths, c10PickN(r, c10ReplFieldPaths))
		}
		rp.Targets = append(rp.Targets, t)
	}
	return rp
}

func c10ReplHangProne(rps []c10Repl) bool {
	for _, rp := range rps {
		for _, t := range rp.Targets {
			if t.Options != nil && t.Options.Create {
				fps := t.FieldPaths
				if len(fps) == 0 {
					fps = []string{types.DefaultReplacementFieldPath}
				}
				for _, fp := range fps {
					if c10HangProne(kutils.SmarterPathSplitter(fp, "."), true) {
						return true
					}
				}
			}
		}
	}
	return false
}

func c10EmitRepl(run *Run, c c10Case, resp c10ChildResp) {
	if resp.Cls == "parse-error" || resp.Cls == "bad-request" {
		run.Meta.Skipped++
		return
	}
	nodes, ok := c10ParseDocs(c.Docs)
	if !ok {
		run.Meta.Skipped++
		return
	}
	orig, ok := coqNodes(nodes)
	run.Count("repl", resp.Cls)
	c10Report(run, c10LawRepl(c, resp.Cls, resp.AfterY), c)
	c10Report(run, c10LawReplEncodable(c, resp.NoEnc), c)
	if resp.Cls == ClsErr {
		m := resp.Msg
		for _, k := range []string{"multiple matches", "nothing selected", "is missing for", "unable to find field", "unable to find or create", "delimiter option", "out of bounds", "must specify", "mutually exclusive", "error looking up", "wrong node kind", "selector", "previous"} {
			if strings.Contains(m, k) {
				m = k
				break
			}
		}
		if len(m) > 40 {
			m = m[:40]
		}
		run.Count("repl_err", m)
	}
	tab := newPtab()
	fields, prim := map[string]bool{}, false
	lselOK := true
	nullsMulti := false
	npaths := 0
	for _, rp := range c.Repls {
		for _, t := range rp.Targets {
			fps := t.FieldPaths
			if len(fps) == 0 {
				fps = []string{types.DefaultReplacementFieldPath}
			}
			for _, fp := range fps {
				npaths++
				pats, f, p := c10PathSelectors(kutils.SmarterPathSplitter(fp, "."))
				for _, x := range pats {
					tab.add(x)
				}
				for k := range f {
					fields[k] = true
				}
				prim = prim || p
			}
			sels := append([]c10Sel{}, t.Reject...)
			if t.Select != nil {
				sels = append(sels, *t.Select)
			}
			for _, s := range sels {
				for _, txt := range []string{s.Lab, s.Ann} {
					if !c10SimpleLsel(txt) {
						if _, e := kyaml.NewMapRNode(nil).MatchesLabelSelector(txt); e == nil {
							lselOK = false
						}
					}
				}
			}
		}
	}
	safe := true
	for _, n := range nodes {
		if !c10EncSafe(n.YNode(), fields, prim) || c10HasDupKeys(n.YNode()) {
			safe = false
		}
		if npaths > 1 && c10HasNull(n.YNode()) {
			nullsMulti = true
		}
	}
	alias := false
	for _, rp := range c.Repls {
		alias = alias || c10MayAlias(rp)
	}
	if alias {
		run.Count("repl", "source-may-be-aliased")
	}
	if !ok || resp.Unrep || tab.bad || !safe || !lselOK || nullsMulti {
		run.Count("repl", "skipped-domain")
		run.Meta.Skipped++
		return
	}
	after := resp.Afters
	if resp.Cls != ClsOk {
		after = orig
	}
	parts := []string{}
	extra := []resid.Gvk{}
	for _, rp := range c.Repls {
		parts = append(parts, rp.coq())
		if rp.Source != nil {
			extra = append(extra, rp.Source.resid().Gvk)
		}
		for _, t := range rp.Targets {
			if t.Select != nil {
				extra = append(extra, t.Select.resid().Gvk)
			}
			for _, x := range t.Reject {
				extra = append(extra, x.resid().Gvk)
			}
		}
	}
	ns := []string{}
	if kyaml.IsValueNonString("") {
		ns = append(ns, "")
	}
	changed := resp.Cls == ClsOk && after != orig
	if changed {
		run.Count("repl", "changed")
	}
	undec := []string{}
	for _, p := range resp.Undec {
		undec = append(undec, "("+p[0]+", "+coqStr(p[1])+")")
	}
	run.AddCase(fmt.Sprintf("(KRepl %s %s [%s] %s [%s] %s %s %s)", tab.coq(), coqStrList(ns), strings.Join(undec, "; "), coqGvks(c10ClusterScoped(nodes, extra...)),
		strings.Join(parts, "; "), orig, resp.Cls, after), c, changed)
}

// c10MayAlias: without a source delimiter, getReplacement returns the LIVE source node; a target
// field that is (or contains, or lies inside) that node changes the value later targets receive.
// The model copies the value once; such replacements are outside its domain. Conservative test on
// the path texts: list selectors, indices and * are treated as matching anything.
func c10MayAlias(rp c10Repl) bool {
	if rp.Source == nil || rp.SourceValue != nil {
		return false
	}
	if rp.Source.Options != nil && rp.Source.Options.Delimiter != "" {
		return false
	}
	sp := rp.Source.FieldPath
	if sp == "" {
		sp = types.DefaultReplacementFieldPath
	}
	a := kutils.SmarterPathSplitter(sp, ".")
	wild := func(p string) bool { return p == "*" || kyaml.IsIdxNumber(p) || kyaml.IsListIndex(p) }
	for _, t := range rp.Targets {
		fps := t.FieldPaths
		if len(fps) == 0 {
			fps = []string{types.DefaultReplacementFieldPath}
		}
		for _, fp := range fps {
			b := kutils.SmarterPathSplitter(fp, ".")
			n := len(a)
			if len(b) < n {
				n = len(b)
			}
			same := true
			for i := 0; i < n; i++ {
				if a[i] != b[i] && !wild(a[i]) && !wild(b[i]) {
					same = false
					break
				}
			}
			if same {
				return true
			}
		}
	}
	return false
}

func c10HasNull(n *kyaml.Node) bool {
	if n == nil {
		return false
	}
	if n.Tag == kyaml.NodeTagNull {
		return true
	}
	for _, c := range n.Content {
		if c10HasNull(c) {
			return true
		}
	}
	return false
}

// ====================================================================== run

func c10Exec1(run *Run, c c10Case, imgFs, repFs types.FsSlice) {
	switch c.Kind {
	case "regex":
		c10RunRegex(run, c)
	case "imageval":
		c10RunImageVal(run, c)
	case "imagetr":
		c10RunImageTr(run, c, imgFs)
	case "replica":
		c10RunReplica(run, c, repFs)
	case "select":
		c10RunSelect(run, c)
	case "split":
		c10RunSplit(run, c)
	case "patch":
		c10RunPatch(run, c)
	}
}

func runC10(run *Run, rng *Rng, tier string) error {
	scale := 1
	if tier == "thorough" {
		scale = 12
	}
	run.shard = 200 // C10 case terms are large (whole resource lists): smaller shards, more parallelism
	run.Meta.Rule = "micro-cases per matcher on near-miss families (names x, x-1, ax, x.y, xzy, ...; images x, x:1, reg:5000/x@sha256:..., ...; " +
		"entries / patterns incl. regexp metacharacters and a non-compiling one): regexp vs derivative matcher on generated patterns of the fragment; " +
		"imagetag.Filter on one value; ImageTagTransformer / ReplicaCountTransformer / resWrangler.Select on ResMaps of 1-6 resources (previous-id annotations, " +
		"odd container shapes); SmarterPathSplitter; PathMatcher (all part kinds, Create of each kind) ; replacement.Filter (source/target/reject selectors, " +
		"delimiter/index/create options). non-trivial = something matched / was modified; distinct by hash of the case term. " +
		"Oracle: krusty.Run builds on an in-memory FS, modified (resource, field, value) set compared with an independent matcher's prediction."
	finishOracle := c10StartOracle(rng.Fork(), tier)
	imgFs, repFs := krusty.VerifC10DefaultFieldSpecs()
	// runtime tables vs translated tables (the model of the transformer cases uses the translated ones)
	run.AddCase(fmt.Sprintf("(KFsTab %s %s)", c10CoqFs(imgFs), c10CoqFs(repFs)), map[string]string{"kind": "fstab"}, false)

	var cases []c10Case
	cases = append(cases, c10LoadCorpusCases()...)
	// ---- regexp
	for i := 0; i < 260*scale; i++ {
		g := rng.Fork()
		c := c10Case{Kind: "regex", Pat: c10GenRegexText(g, 3), Subj: c10GenSubject(g)}
		if g.Chance(30) { // the patterns the implementation builds
			switch g.Intn(3) {
			case 0:
				c.Pat = c10ImgPattern(c10PickN(g, c10ImgEntryNames))
				c.Subj = c10PickN(g, c10Images)
			case 1:
				c.Pat = c10AnchorText(c10PickN(g, c10NamePats))
				c.Subj = c10PickN(g, c10Names)
			default:
				c.Pat = c10PickN(g, c10NamePats)
				c.Subj = c10PickN(g, c10Names)
			}
		}
		cases = append(cases, c)
	}
	// ---- image value
	for i := 0; i < 220*scale; i++ {
		g := rng.Fork()
		im := c10GenImage(g)
		v := c10PickN(g, c10Images)
		if strings.HasSuffix(v, ":") || strings.HasSuffix(v, "@") || v == "x:1:2" || g.Chance(8) {
			v = c10yq(v)
		}
		if g.Chance(6) {
			v = c10PickN(g, []string{"null", "{a: b}", "[x]", "~", "\"\"", "1", "true"})
		}
		cases = append(cases, c10Case{Kind: "imageval", Image: &im, Doc: "image: " + v + "\n"})
	}
	// ---- transformers
	for i := 0; i < 110*scale; i++ {
		g := rng.Fork()
		im := c10GenImage(g)
		cases = append(cases, c10Case{Kind: "imagetr", Image: &im, Docs: c10Texts(c10GenResList(g, 1+g.Intn(5), true))})
	}
	for i := 0; i < 110*scale; i++ {
		g := rng.Fork()
		l := c10GenResList(g, 1+g.Intn(6), true)
		name := c10PickN(g, c10Names)
		if g.Chance(80) && len(l) > 0 {
			name = l[g.Intn(len(l))].Name
			cands := []string{}
			for _, x := range l {
				if x.Kind == "Deployment" || x.Kind == "StatefulSet" || x.Kind == "ReplicaSet" {
					cands = append(cands, x.Name)
					for _, p := range x.Prev {
						cands = append(cands, p[0])
					}
				}
			}
			if len(cands) > 0 && g.Chance(80) {
				name = c10PickN(g, cands)
			}
		}
		cases = append(cases, c10Case{Kind: "replica", RName: name, RCount: int64(g.Intn(12)) - 1, Docs: c10Texts(l)})
	}
	for i := 0; i < 160*scale; i++ {
		g := rng.Fork()
		l := c10GenResList(g, 1+g.Intn(6), true)
		s := c10GenSel(g)
		if len(l) > 0 && g.Chance(60) {
			x := l[g.Intn(len(l))]
			near := func(n string) string {
				switch g.Intn(7) {
				case 0:
					return n + ".*"
				case 1:
					return n + "|ax"
				case 2:
					return ".*" + n
				case 3:
					return n + "|" + l[g.Intn(len(l))].Name
				case 4:
					return n + "?"
				default:
					return n
				}
			}
			if s.Name != "" || g.Chance(50) {
				s.Name = near(x.Name)
				if len(x.Prev) > 0 && g.Chance(50) {
					s.Name = near(x.Prev[0][0])
				}
			}
			if s.Kind != "" {
				s.Kind = near(x.Kind)
			}
			if s.Namespace != "" && g.Chance(70) {
				ns := x.Namespace
				if ns == "" {
					ns = "default"
				}
				if len(x.Prev) > 0 && g.Chance(50) {
					ns = x.Prev[0][1]
				}
				s.Namespace = near(ns)
			}
			if s.Group != "" && g.Chance(70) {
				if i := strings.Index(x.APIVersion, "/"); i > 0 {
					s.Group = near(x.APIVersion[:i])
				} else {
					s.Group = ""
				}
			}
			if s.Lab != "" && len(x.Labels) > 0 && g.Chance(70) {
				s.Lab = x.Labels[0][0] + c10PickN(g, []string{"=", "==", "!="}) + x.Labels[0][1]
			}
		}
		if g.Chance(14) {
			// top-level alternations over near-miss names: x is a prefix of x-1, x.y, xzy, x1 and a suffix of ax
			s = c10Sel{c10Id: c10Id{Name: c10PickN(g, []string{"x|app", "x|ax", "app|x", "ax|x", "x-1|x", "x|x-1", "app|ax|x", "x1|x"})}}
			if g.Chance(30) && len(l) > 0 {
				s.Kind = l[g.Intn(len(l))].Kind + "|Pod"
			}
			if g.Chance(20) {
				s.Namespace = "ns|default"
			}
		}
		cases = append(cases, c10Case{Kind: "select", Sel: &s, Docs: c10Texts(l)})
	}
	for i := 0; i < 80*scale; i++ {
		g := rng.Fork()
		cases = append(cases, c10Case{Kind: "split", PathS: c10GenSplitPath(g)})
	}
	// ---- patches entries (targeted / by-name)
	for i := 0; i < 90*scale; i++ {
		g := rng.Fork()
		// regular container shapes only: the strategic merge itself (C04) must not fail on the document
		l := c10GenResList(g, 1+g.Intn(6), false)
		if g.Chance(3) { // malformed previous-id annotations: Resource.PrevIds panics
			l[0].Prev = nil
			l[0].Annos = append(l[0].Annos, [2]string{"internal.config.kubernetes.io/previousNames", "a,b"},
				[2]string{"internal.config.kubernetes.io/previousNamespaces", "default"},
				[2]string{"internal.config.kubernetes.io/previousKinds", l[0].Kind})
		}
		c := c10Case{Kind: "patch", Docs: c10Texts(l)}
		x := l[g.Intn(len(l))]
		if g.Chance(50) {
			s := c10GenSel(g)
			if g.Chance(60) {
				s = c10Sel{c10Id: c10Id{Name: c10PickN(g, []string{x.Name, x.Name + "|" + l[g.Intn(len(l))].Name, x.Name + ".*", "x|app", "ax|x"})}}
				if g.Chance(40) {
					s.Kind = x.Kind
				}
				if g.Chance(25) && len(x.Labels) > 0 {
					s.Lab = x.Labels[0][0] + "=" + x.Labels[0][1]
				}
			}
			c.Sel = &s
		} else {
			// by name: prefer a resource that carries previous ids (a patch may name the ORIGINAL id)
			withPrev := []c10Res{}
			for _, y := range l {
				if len(y.Prev) > 0 {
					withPrev = append(withPrev, y)
				}
			}
			usePrev := false
			if len(withPrev) > 0 && g.Chance(45) {
				x = withPrev[g.Intn(len(withPrev))]
				usePrev = g.Chance(75)
			}
			id := c10Id{Kind: x.Kind, Name: x.Name, Namespace: x.Namespace}
			if i := strings.Index(x.APIVersion, "/"); i > 0 {
				id.Group, id.Version = x.APIVersion[:i], x.APIVersion[i+1:]
			} else {
				id.Version = x.APIVersion
			}
			k := g.Intn(8)
			if usePrev {
				k = 0
			}
			switch k {
			case 0:
				if len(x.Prev) > 0 { // a previous id of the resource
					pi := g.Intn(len(x.Prev))
					id.Name, id.Namespace, id.Kind = x.Prev[pi][0], x.Prev[pi][1], x.Prev[pi][2]
				}
			case 1:
				id.Name = c10PickN(g, c10Names) // possibly another / no resource
			case 2:
				id.Namespace = c10PickN(g, []string{"", "default", "ns", "ns-1"})
			case 3:
				id.Version = "v1beta1"
			}
			c.ById = &id
		}
		cases = append(cases, c)
	}
	// ---- PathMatcher / replacement (through child processes when hang-prone)
	for i := 0; i < 260*scale; i++ {
		g := rng.Fork()
		c := c10Case{Kind: "match", Doc: c10PickN(g, c10MatchDocs), Path: c10MatchPaths[g.Intn(len(c10MatchPaths))]}
		if g.Chance(22) { // indices around the length of the list they address
			pr := c10MatchPairs[g.Intn(len(c10MatchPairs))]
			c.Doc = c10MatchDocs[pr.doc]
			c.Path = append(append([]string{}, pr.prefix...), strconv.Itoa(pr.n+g.Intn(3)-1))
			if c.Path[len(c.Path)-1] == "-1" {
				c.Path[len(c.Path)-1] = "0"
			}
			if g.Chance(50) {
				c.Path = append(c.Path, c10PickN(g, []string{"image", "name", "0", "[name=x]", "*"}))
			}
		}
		if g.Chance(45) {
			c.Create = []int{int(kyaml.ScalarNode), int(kyaml.MappingNode), int(kyaml.SequenceNode)}[g.Intn(3)]
		}
		// non-self-matching selectors with Create never return: keep only a few of them per run
		cases = append(cases, c)
	}
	for i := 0; i < 200*scale; i++ {
		g := rng.Fork()
		l := c10GenResList(g, 1+g.Intn(5), false)
		rps := []c10Repl{c10GenRepl(g, l)}
		if g.Chance(15) {
			rps = append(rps, c10GenRepl(g, l))
		}
		if g.Chance(9) {
			// a mapping / list source copied to several targets, then a write into a child of ONE copy
			l, rps = c10GenSharedSource(g)
			if g.Chance(30) {
				l = append(l, c10GenResList(g, 1, false)...)
			}
		}
		cases = append(cases, c10Case{Kind: "repl", Repls: rps, Docs: c10Texts(l)})
	}
	// limit the number of cases expected not to return (each costs two timeouts)
	maxHang := 4
	if tier == "thorough" {
		maxHang = 16
	}
	hangs := 0
	kept := cases[:0]
	for _, c := range cases {
		if c10ExpectHang(c) {
			hangs++
			if hangs > maxHang {
				continue
			}
		}
		kept = append(kept, c)
	}
	cases = kept

	// execute: child-bound jobs first (in parallel), then emit everything in generation order
	jobs := map[int]*c10Job{}
	var jl []*c10Job
	for i, c := range cases {
		var j *c10Job
		switch c.Kind {
		case "match":
			if c10HangProne(c.Path, c.Create != 0) {
				j = c10RunMatchJob(c)
			}
		case "repl":
			if c10ReplHangProne(c.Repls) {
				j = &c10Job{req: c10ChildReq{Kind: "repl", Docs: c.Docs, Repls: c.Repls}}
			}
		}
		if j != nil {
			jobs[i] = j
			jl = append(jl, j)
		}
	}
	if err := c10RunJobs(jl, 8, 1500*time.Millisecond, 3*time.Second); err != nil {
		return err
	}
	for i, c := range cases {
		switch c.Kind {
		case "match":
			var resp c10ChildResp
			if j, ok := jobs[i]; ok {
				resp = j.resp
			} else {
				resp = c10Exec(c10RunMatchJob(c).req)
			}
			c10EmitMatch(run, c, resp)
		case "repl":
			var resp c10ChildResp
			if j, ok := jobs[i]; ok {
				resp = j.resp
			} else {
				resp = c10Exec(c10ChildReq{Kind: "repl", Docs: c.Docs, Repls: c.Repls})
			}
			c10EmitRepl(run, c, resp)
		default:
			c10Exec1(run, c, imgFs, repFs)
		}
	}
	// ---- oracles on whole builds
	return finishOracle(run)
}

// c10ExpectHang: Create with a list selector whose value (as a regexp) does not match itself.
func c10ExpectHang(c c10Case) bool {
	nsm := func(path []string) bool {
		for _, p := range path {
			if kyaml.IsIdxNumber(p) || !kyaml.IsListIndex(p) {
				continue
			}
			_, v, err := kyaml.SplitIndexNameValue(p)
			if err != nil {
				continue
			}
			re, err := regexp.Compile(v)
			if err == nil && !re.MatchString(v) {
				return true
			}
		}
		return false
	}
	switch c.Kind {
	case "match":
		return c.Create != 0 && nsm(c.Path)
	case "repl":
		for _, rp := range c.Repls {
			for _, t := range rp.Targets {
				if t.Options != nil && t.Options.Create {
					for _, fp := range t.FieldPaths {
						if nsm(kutils.SmarterPathSplitter(fp, ".")) {
							return true
						}
					}
				}
			}
		}
	}
	return false
}

func c10LoadCorpusCases() []c10Case {
	out := []c10Case{}
	data, err := os.ReadFile(verifRoot() + "/corpus/C10/cases.json")
	if err != nil {
		return out
	}
	_ = json.Unmarshal(data, &out)
	return out
}

var _ = sort.Strings
