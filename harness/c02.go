package main

import (
	"encoding/json"
	"fmt"
	"os"
	"reflect"
	"regexp"
	"sort"
	"strings"

	syaml "sigs.k8s.io/yaml"
)

// C02: untargeted content passes through a build unchanged (frame / type fidelity).
// Search oracle on the implementation: every input resource (matched by a tracer annotation) appears
// exactly once in the output, and after removing — from input and output alike — every location that a
// directive on the resource's layer chain targets according to the REFERENCE field-spec tables
// (corpus/fieldspecs.ref.json, the documented field sets at the pinned commit), the typed JSON values
// (as read by a YAML 1.1 parser) are equal.

func init() {
	register("C02", propDef{
		header: "From KV Require Import Corr.PIPE.\nFrom KV Require Labels Res.Replica Res.Image Res.Selector.\nFrom KV Require Import Corr.SchemaTable.\nFrom KV Require Gen.LegacyOrder.\n" +
			"Open Scope string_scope.\n",
		caseType:   "casePIPE",
		mismatchFn: "mismatchesPIPE",
		run:        runC02,
		replay:     replayC02,
	})
}

type refFS struct {
	Group   string `json:"group"`
	Version string `json:"version"`
	Kind    string `json:"kind"`
	Path    string `json:"path"`
	Create  bool   `json:"create"`
}

type refTables struct {
	CommonLabels      []refFS `json:"commonLabels"`
	TemplateLabels    []refFS `json:"templateLabels"`
	CommonAnnotations []refFS `json:"commonAnnotations"`
	Namespace         []refFS `json:"namespace"`
	Images            []refFS `json:"images"`
	Replicas          []refFS `json:"replicas"`
}

var refTab *refTables

func loadRef() *refTables {
	if refTab != nil {
		return refTab
	}
	data, err := os.ReadFile(verifRoot() + "/corpus/fieldspecs.ref.json")
	if err != nil {
		panic(err)
	}
	var t refTables
	if err := json.Unmarshal(data, &t); err != nil {
		panic(err)
	}
	refTab = &t
	return refTab
}

func gvkOf(o obj) (g, v, k string) {
	av, _ := o["apiVersion"].(string)
	k, _ = o["kind"].(string)
	if i := strings.Index(av, "/"); i >= 0 {
		return av[:i], av[i+1:], k
	}
	return "", av, k
}

func (f refFS) matches(o obj) bool {
	g, v, k := gvkOf(o)
	return (f.Kind == "" || f.Kind == k) && (f.Group == "" || f.Group == g) && (f.Version == "" || f.Version == v)
}

// deleteAt removes, under the slash path (with [] fan-out over lists and implicit fan-out when a list is met),
// the given keys of the map found there (keys == nil: remove the final field itself). Containers emptied by the
// removal are pruned. Returns the possibly pruned value and whether it should be dropped by the parent.
func deleteAt(v interface{}, path []string, keys map[string]bool) (interface{}, bool) {
	if len(path) == 0 {
		if keys == nil {
			return nil, true
		}
		m, ok := v.(map[string]interface{})
		if !ok {
			return v, false
		}
		removed := false
		for k := range keys {
			if _, ok := m[k]; ok {
				delete(m, k)
				removed = true
			}
		}
		return m, removed && len(m) == 0
	}
	switch x := v.(type) {
	case []interface{}:
		out := make([]interface{}, 0, len(x))
		removedAny := false
		for _, e := range x {
			ne, drop := deleteAt(e, path, keys)
			if drop {
				removedAny = true
				continue
			}
			out = append(out, ne)
		}
		return out, removedAny && len(out) == 0
	case map[string]interface{}:
		name := strings.TrimSuffix(path[0], "[]")
		child, ok := x[name]
		if !ok {
			return x, false
		}
		nc, drop := deleteAt(child, path[1:], keys)
		if drop {
			delete(x, name)
			return x, len(x) == 0
		}
		x[name] = nc
		return x, false
	default:
		return v, false
	}
}

func splitFsPath(p string) []string {
	p = strings.TrimPrefix(p, "/")
	return strings.Split(p, "/")
}

// removeContainerImages deletes the image field of every element of every list held by a key named
// containers / initContainers anywhere in the document (the legacy image filter walks the whole tree).
func removeContainerImages(v interface{}) {
	switch x := v.(type) {
	case map[string]interface{}:
		for k, c := range x {
			if k == "containers" || k == "initContainers" {
				if l, ok := c.([]interface{}); ok {
					for _, e := range l {
						if m, ok := e.(map[string]interface{}); ok {
							delete(m, "image")
						}
					}
				}
			}
			removeContainerImages(c)
		}
	case []interface{}:
		for _, e := range x {
			removeContainerImages(e)
		}
	}
}

var clusterKinds = map[string]bool{"ClusterRole": true, "ClusterRoleBinding": true, "Namespace": true, "StorageClass": true,
	"CustomResourceDefinition": true, "PersistentVolume": true}
var prefixSkipKinds = map[string]bool{"CustomResourceDefinition": true, "APIService": true, "Namespace": true}

func strKeys(m interface{}) map[string]bool {
	out := map[string]bool{}
	if mm, ok := m.(obj); ok {
		for k := range mm {
			out[k] = true
		}
	}
	return out
}

type frameResult struct {
	Law    string
	Detail string
}

// normalize removes the targeted locations from a document.
func hasVarSyntax02(files map[string]string) bool {
	for _, text := range files {
		if strings.Contains(text, "$$") || strings.Contains(text, "$(") {
			return true
		}
	}
	return false
}

// customFS is a field spec added through a `configurations:` file of the tree.
type customFS struct{ Path, Kind string }

// customSpecs02 collects every field spec of every kconfig.yaml of the case. The frame oracle over-approximates:
// a location under a custom spec whose kind admits the resource counts as targeted for the whole tree (whatever
// layer declared it, whatever directive it belongs to). The point of generating `configurations:` here is the
// trees WITHOUT one that follow in the same process: nothing custom is targeted there (state shared between
// kustomizations / builds, seeded C02-f).
func customSpecs02(files map[string]string) []customFS {
	var out []customFS
	names := make([]string, 0, len(files))
	for n := range files {
		names = append(names, n)
	}
	sort.Strings(names)
	for _, n := range names {
		if !strings.HasSuffix(n, "/kconfig.yaml") {
			continue
		}
		var m map[string][]map[string]interface{}
		if err := syaml.Unmarshal([]byte(files[n]), &m); err != nil {
			continue
		}
		for _, l := range m {
			for _, e := range l {
				p, _ := e["path"].(string)
				k, _ := e["kind"].(string)
				if p != "" {
					out = append(out, customFS{Path: p, Kind: k})
				}
			}
		}
	}
	return out
}

func normalize02(doc obj, t *GenTree, gr *GenRes, custom []customFS) {
	ref := loadRef()
	chain := t.chain(gr.Layer)
	origName := gr.Obj["metadata"].(obj)["name"].(string)
	kind := gr.Obj["kind"].(string)
	selKeys, tmplKeys, metaKeys, annoKeys := map[string]bool{}, map[string]bool{}, map[string]bool{}, map[string]bool{}
	rename, ns, images, replicas, patched := false, false, false, false, false
	for _, l := range chain {
		if _, ok := l.Kust["namePrefix"]; ok {
			rename = true
		}
		if _, ok := l.Kust["nameSuffix"]; ok {
			rename = true
		}
		if _, ok := l.Kust["namespace"]; ok {
			ns = true
		}
		for k := range strKeys(l.Kust["commonLabels"]) {
			selKeys[k] = true
		}
		for k := range strKeys(l.Kust["commonAnnotations"]) {
			annoKeys[k] = true
		}
		if ls, ok := l.Kust["labels"].([]interface{}); ok {
			for _, e := range ls {
				em := e.(obj)
				for k := range strKeys(em["pairs"]) {
					metaKeys[k] = true
					if b, _ := em["includeSelectors"].(bool); b {
						selKeys[k] = true
					} else if b, _ := em["includeTemplates"].(bool); b {
						tmplKeys[k] = true
					}
				}
			}
		}
		if _, ok := l.Kust["images"]; ok {
			images = true
		}
		if _, ok := l.Kust["replicas"]; ok {
			replicas = true
		}
		if ps, ok := l.Kust["patches"].([]interface{}); ok {
			for _, p := range ps {
				tg := p.(obj)["target"].(obj)
				// independent matcher: the target's kind and name are full-match regular expressions
				if fullMatch(fmt.Sprint(tg["kind"]), kind) && fullMatch(fmt.Sprint(tg["name"]), origName) {
					patched = true
				}
			}
		}
	}
	var v interface{} = doc
	if rename && !prefixSkipKinds[kind] {
		v, _ = deleteAt(v, []string{"metadata", "name"}, nil)
	}
	if ns && !clusterKinds[kind] {
		v, _ = deleteAt(v, []string{"metadata", "namespace"}, nil)
	}
	if ns {
		// the namespace field-spec table (e.g. metadata/name of kind Namespace)
		for _, f := range ref.Namespace {
			if f.matches(gr.Obj) {
				v, _ = deleteAt(v, splitFsPath(f.Path), nil)
			}
		}
	}
	for k := range selKeys {
		metaKeys[k] = true
	}
	for k := range tmplKeys {
		metaKeys[k] = true
	}
	if len(metaKeys) > 0 {
		v, _ = deleteAt(v, []string{"metadata", "labels"}, metaKeys)
	}
	if len(selKeys) > 0 {
		for _, f := range ref.CommonLabels {
			if f.matches(gr.Obj) {
				v, _ = deleteAt(v, splitFsPath(f.Path), selKeys)
			}
		}
	}
	if len(tmplKeys) > 0 {
		for _, f := range ref.TemplateLabels {
			if f.matches(gr.Obj) {
				v, _ = deleteAt(v, splitFsPath(f.Path), tmplKeys)
			}
		}
	}
	if len(annoKeys) > 0 {
		for _, f := range ref.CommonAnnotations {
			if f.matches(gr.Obj) {
				v, _ = deleteAt(v, splitFsPath(f.Path), annoKeys)
			}
		}
	}
	if images {
		removeContainerImages(v)
	}
	if replicas {
		for _, f := range ref.Replicas {
			if f.matches(gr.Obj) {
				v, _ = deleteAt(v, splitFsPath(f.Path), nil)
			}
		}
	}
	if patched {
		v, _ = deleteAt(v, []string{"metadata", "annotations"}, map[string]bool{"patched": true})
	}
	for _, c := range custom {
		if c.Kind == "" || c.Kind == kind {
			v, _ = deleteAt(v, splitFsPath(c.Path), nil)
		}
	}
	_ = v
}

func fullMatch(pat, s string) bool {
	re, err := regexp.Compile("^(?:" + pat + ")$")
	if err != nil {
		return false
	}
	return re.MatchString(s)
}

var docSep = regexp.MustCompile(`(?m)^---\s*$`)

func parseDocs(out string) ([]obj, error) {
	res := []obj{}
	for _, d := range docSep.Split(out, -1) {
		if strings.TrimSpace(d) == "" {
			continue
		}
		var o obj
		if err := syaml.Unmarshal([]byte(d), &o); err != nil {
			return nil, err
		}
		res = append(res, o)
	}
	return res, nil
}

func tracerOf(o obj) string {
	m, _ := o["metadata"].(obj)
	a, _ := m["annotations"].(obj)
	s, _ := a["tracer"].(string)
	return s
}

func deepCopyJSON(o obj) obj {
	b, _ := json.Marshal(o)
	var c obj
	_ = json.Unmarshal(b, &c)
	return c
}

// diffPath returns the first path at which two JSON values differ ("" if equal).
func diffPath(a, b interface{}, at string) string {
	if reflect.DeepEqual(a, b) {
		return ""
	}
	am, aok := a.(map[string]interface{})
	bm, bok := b.(map[string]interface{})
	if aok && bok {
		keys := map[string]bool{}
		for k := range am {
			keys[k] = true
		}
		for k := range bm {
			keys[k] = true
		}
		ks := sortedKeys(keys)
		for _, k := range ks {
			av, ain := am[k]
			bv, bin := bm[k]
			if !ain || !bin {
				return at + "/" + k
			}
			if d := diffPath(av, bv, at+"/"+k); d != "" {
				return d
			}
		}
		return at
	}
	al, aok := a.([]interface{})
	bl, bok := b.([]interface{})
	if aok && bok && len(al) == len(bl) {
		for i := range al {
			if d := diffPath(al[i], bl[i], fmt.Sprintf("%s/%d", at, i)); d != "" {
				return d
			}
		}
	}
	return at
}

type case02 struct {
	Files   map[string]string `json:"files"`
	Top     string            `json:"top"`
	Tracers map[string]int    `json:"tracers"` // tracer -> layer index
	NGen    int               `json:"ngen"`
	Kusts   []obj             `json:"kusts"` // per layer, innermost first
	Inputs  map[string]obj    `json:"inputs"`
}

func mkCase02(t *GenTree) case02 {
	c := case02{Files: t.FileMap(), Top: t.TopDir(), Tracers: map[string]int{}, NGen: t.NGenerated, Inputs: map[string]obj{}}
	for _, gr := range t.Resources {
		c.Tracers[gr.Tracer] = gr.Layer
		c.Inputs[gr.Tracer] = gr.Obj
	}
	for _, l := range t.Layers {
		c.Kusts = append(c.Kusts, l.Kust)
	}
	return c
}

// treeOfCase rebuilds the tree skeleton needed by normalize02 from a replayable case.
func treeOfCase(c case02) *GenTree {
	t := &GenTree{NGenerated: c.NGen}
	for i, k := range c.Kusts {
		t.Layers = append(t.Layers, &GenLayer{Dir: fmt.Sprintf("/work/l%d", i), Kust: k, Files: map[string]string{}})
	}
	trs := make([]string, 0, len(c.Tracers))
	for tr := range c.Tracers {
		trs = append(trs, tr)
	}
	sort.Strings(trs)
	for _, tr := range trs {
		t.Resources = append(t.Resources, &GenRes{Tracer: tr, Obj: c.Inputs[tr], Layer: c.Tracers[tr]})
	}
	return t
}

// check02 builds the tree of the case and evaluates the frame and identity laws.
func check02(c case02) (cls string, viol []frameResult, nontrivial bool) {
	t := treeOfCase(c)
	custom := customSpecs02(c.Files)
	out, cls, _ := buildFS(fsFromFileMap(c.Files), c.Top, false)
	if cls != ClsOk {
		return cls, nil, false
	}
	docs, err := parseDocs(out)
	if err != nil {
		return cls, []frameResult{{"output_parses", "output does not parse: " + err.Error()}}, false
	}
	byTracer := map[string][]obj{}
	untraced := 0
	for _, d := range docs {
		tr := tracerOf(d)
		if tr == "" {
			untraced++
			continue
		}
		byTracer[tr] = append(byTracer[tr], d)
	}
	if untraced != t.NGenerated {
		viol = append(viol, frameResult{"identity_multiset", fmt.Sprintf("%d output documents without tracer, %d generator objects expected", untraced, t.NGenerated)})
	}
	for _, gr := range t.Resources {
		outs := byTracer[gr.Tracer]
		if len(outs) != 1 {
			viol = append(viol, frameResult{"identity_multiset", fmt.Sprintf("input resource %s (%v/%v) appears %d times in the output",
				gr.Tracer, gr.Obj["kind"], gr.Obj["metadata"].(obj)["name"], len(outs))})
			continue
		}
		// input as a YAML 1.1 parser reads the file text we wrote
		y, _ := syaml.Marshal(gr.Obj)
		var in obj
		_ = syaml.Unmarshal(y, &in)
		o := deepCopyJSON(outs[0])
		if !reflect.DeepEqual(in, o) {
			nontrivial = true
		}
		normalize02(in, t, gr, custom)
		normalize02(o, t, gr, custom)
		if d := diffPath(in, o, ""); d != "" {
			viol = append(viol, frameResult{"frame", fmt.Sprintf("resource %s (%v %v) differs at untargeted path %s", gr.Tracer, gr.Obj["kind"], gr.Obj["metadata"].(obj)["name"], d)})
		}
	}
	return cls, viol, nontrivial
}

func runC02(r *Run, rng *Rng, tier string) error {
	n := 250
	if tier == "thorough" {
		n = 6000
	}
	r.Meta.Rule = "generated kustomization chains (1-3 layers, 23 kinds incl. custom kinds, adversarial scalar dictionary in untargeted fields, " +
		"directives namePrefix/nameSuffix/namespace/commonLabels/commonAnnotations/labels/images/replicas/patches/configMapGenerator on any layer) built with krusty.Run; " +
		"non-trivial = the build succeeded and changed at least one resource; distinct by hash of the file map"
	for i := 0; i < n; i++ {
		g := rng.Fork()
		// vary the directive subset so single-directive and mixed trees both occur
		dirs := []string{}
		for _, d := range allDirectives {
			if g.Chance(60) {
				dirs = append(dirs, d)
			}
		}
		if g.Chance(25) {
			// custom transformer configuration in some trees; the trees without one that follow must not see it
			dirs = append(dirs, "configurations")
		}
		if g.Chance(25) {
			// a declared (never referenced) variable: the expander visits every varReference path
			dirs = append(dirs, "vars")
		}
		t := genTree(g, treeOpts{MaxLayers: 3, Directives: dirs, ResPerLayer: 4})
		c := mkCase02(t)
		if hasDir(treeOpts{Directives: dirs}, "vars") && hasVarSyntax02(c.Files) {
			// `$$` (escape) and `$(` (reference) are variable syntax: the expander may rewrite them; out of domain
			r.Count("skipped", "vars-syntax-in-input")
			continue
		}
		cls, viol, nontriv := check02(c)
		r.Count("class", cls)
		r.Count("layers", fmt.Sprint(len(t.Layers)))
		for _, d := range dirs {
			r.Count("directive", d)
		}
		for _, gr := range t.Resources {
			r.Count("kind", gr.Obj["kind"].(string))
		}
		fp, _ := json.Marshal(c.Files)
		r.AddEval(string(fp), cls == ClsOk && nontriv)
		if len(r.Meta.Samples) < 3 && cls == ClsOk && nontriv {
			r.Meta.Samples = append(r.Meta.Samples, c.Files)
		}
		if cls == ClsPanic {
			r.Violation(OracleViolation{Law: "no_panic", Class: "C02/panic", Detail: "build panicked", Replay: c})
		}
		for _, v := range viol {
			r.Violation(OracleViolation{Law: v.Law, Class: "C02/" + v.Law, Detail: v.Detail, Replay: c})
		}
	}
	// whole-build model correspondence: the integrated pipeline model (Res/Pipeline.v) vs krusty.Run,
	// whole documents at the typed-JSON level (the tie of C02P/C11P/C19P/C01P/C07P/C06P theorems to /repo)
	rule := r.Meta.Rule
	if err := runPIPE(r, rng.Fork(), tier); err != nil {
		return err
	}
	r.Meta.Rule = rule + " || pipeline model: " + r.Meta.Rule
	return nil
}

func replayC02(path string) (bool, string, error) {
	data, err := os.ReadFile(path)
	if err != nil {
		return false, "", err
	}
	var rp struct {
		Case case02 `json:"case"`
	}
	if err := json.Unmarshal(data, &rp); err != nil || len(rp.Case.Files) == 0 {
		// a case of the pipeline-model correspondence
		return replayPIPE(path)
	}
	cls, viol, _ := check02(rp.Case)
	detail := fmt.Sprintf("class=%s violations=%v", cls, viol)
	return len(viol) > 0 || cls == ClsPanic, detail, nil
}
