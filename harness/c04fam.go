package main

import (
	"encoding/json"
	"fmt"
	"reflect"
	"strings"

	"sigs.k8s.io/kustomize/api/krusty"
	"sigs.k8s.io/kustomize/kyaml/filesys"
	"sigs.k8s.io/kustomize/kyaml/openapi"
	kyaml "sigs.k8s.io/kustomize/kyaml/yaml"
)

// C04, two differential oracle families on the implementation (no model side):
//
//   family "anchors": a strategic-merge patch written with YAML anchors / aliases must give the same result as the same
//     patch written out (every alias replaced by a copy of the anchored block), through Resource.ApplySmPatch on
//     factory-made resources and through a krusty build (patchesStrategicMerge). The aliased blocks carry "$patch"
//     directives (map-level replace / delete / merge, element-level delete in an aliased list) or none.
//
//   family "schema": a custom OpenAPI schema (kustomization `openapi: path:`) that RE-DECLARES a built-in definition with
//     another patch strategy / merge key for one list. (1) lookup: with that schema set, the openapi package reports for
//     the list exactly the strategy and keys the schema text declares; (2) build: patching a built-in kind (Pod), whose
//     schema goes through the re-declared definition, gives the same result as patching a custom kind declared in the
//     same schema file whose definitions are textual copies under names the built-in schema does not have.

// ---------- family "anchors" ----------

type anchorBlock struct {
	name  string
	field string // the field of a container the block is the value of
	plain *g4    // the block
}

func genAnchors04(rng *Rng) case04 {
	names := pickN(rng, []string{"a", "b", "c", "d"}, 2+rng.Intn(2))
	kind := rng.Pick([]string{"Pod", "Deployment"})
	// target: every container has resources, securityContext, env
	cs := &g4{kind: 2}
	for _, n := range names {
		c := gM("name", n, "image", n+":1",
			"resources", gM("limits", gM("cpu", `"2"`, "memory", "1Gi"), "requests", gM("cpu", `"1"`)),
			"securityContext", gM("runAsUser", "1000", "privileged", "false"),
			"env", gL(gM("name", "X", "value", "x"), gM("name", "Y", "value", "y")))
		cs.vals = append(cs.vals, c)
	}
	podSpec := gM("containers", cs)
	var t *g4
	if kind == "Pod" {
		t = gM("apiVersion", "v1", "kind", "Pod", "metadata", gM("name", "obj"), "spec", podSpec)
	} else {
		t = gM("apiVersion", "apps/v1", "kind", "Deployment", "metadata", gM("name", "obj"),
			"spec", gM("replicas", "1", "template", gM("metadata", gM("labels", gM("app", "x")), "spec", podSpec)))
	}
	// the aliased block
	dir := rng.Pick([]string{"replace", "replace", "delete", "merge", ""})
	var blk anchorBlock
	switch rng.Intn(3) {
	case 0:
		b := gM("limits", gM("cpu", `"500m"`))
		if dir != "" {
			b = gM("$patch", dir, "limits", gM("cpu", `"500m"`))
		}
		blk = anchorBlock{"small", "resources", b}
	case 1:
		b := gM("runAsUser", "2000")
		if dir != "" {
			b = gM("$patch", dir, "runAsUser", "2000")
		}
		blk = anchorBlock{"sec", "securityContext", b}
	default:
		// an aliased list with an element-level directive
		l := gL(gM("name", "X", "$patch", "delete"), gM("name", "Z", "value", "z"))
		if dir == "" {
			l = gL(gM("name", "Z", "value", "z"))
		} else if dir == "replace" {
			l = gL(gM("name", "Z", "value", "z"), gM("$patch", "replace"))
		}
		blk = anchorBlock{"envs", "env", l}
	}
	// which containers use the block (the first use defines the anchor)
	users := pickN(rng, names, 2+rng.Intn(len(names)-1))
	var anchored, plain strings.Builder
	head := func(b *strings.Builder) {
		if kind == "Pod" {
			b.WriteString("apiVersion: v1\nkind: Pod\nmetadata:\n  name: obj\nspec:\n  containers:\n")
		} else {
			b.WriteString("apiVersion: apps/v1\nkind: Deployment\nmetadata:\n  name: obj\nspec:\n  template:\n    spec:\n      containers:\n")
		}
	}
	head(&anchored)
	head(&plain)
	base := 2
	if kind == "Deployment" {
		base = 4
	}
	pad := strings.Repeat("  ", base)
	first := true
	for _, n := range names {
		uses := false
		for _, u := range users {
			if u == n {
				uses = true
			}
		}
		if !uses {
			if rng.Chance(50) {
				line := fmt.Sprintf("%s- name: %s\n%s  image: %s:2\n", pad, n, pad, n)
				anchored.WriteString(line)
				plain.WriteString(line)
			}
			continue
		}
		hd := fmt.Sprintf("%s- name: %s\n", pad, n)
		anchored.WriteString(hd)
		plain.WriteString(hd)
		var body strings.Builder
		blk.plain.emit(&body, base+2, false)
		plain.WriteString(fmt.Sprintf("%s  %s:\n%s", pad, blk.field, body.String()))
		if first {
			anchored.WriteString(fmt.Sprintf("%s  %s: &%s\n%s", pad, blk.field, blk.name, body.String()))
			first = false
		} else {
			anchored.WriteString(fmt.Sprintf("%s  %s: *%s\n", pad, blk.field, blk.name))
		}
	}
	return case04{Family: "anchors", Target: t.yaml(), Patch: anchored.String(), PatchPlain: plain.String(),
		Prepend: true, Note: fmt.Sprintf("kind=%s block=%s directive=%q users=%d", kind, blk.field, dir, len(users))}
}

// resourcePatched: Resource.ApplySmPatch on factory-made resources; the result as a JSON value
func resourcePatched(target, patch string) (interface{}, string, error) {
	t, err := resFactory04.FromBytes([]byte(target))
	if err != nil {
		return nil, "factory-error", err
	}
	p, err := resFactory04.FromBytes([]byte(patch))
	if err != nil {
		return nil, "factory-error", err
	}
	cls, msg := protect(func() error { return t.ApplySmPatch(p) })
	if cls != ClsOk {
		return nil, cls, fmt.Errorf("%s", msg)
	}
	if t.IsNilOrEmpty() {
		return nil, ClsOk, nil
	}
	j, err := toJSONValue(&t.RNode)
	return j, ClsOk, err
}

// krustyPatched: a build with one resource and one strategic-merge patch (and optionally a custom schema)
func krustyPatched(target, patch, schema string) (interface{}, string, error) {
	fs := filesys.MakeFsInMemory()
	_ = fs.WriteFile("/app/target.yaml", []byte(target))
	_ = fs.WriteFile("/app/patch.yaml", []byte(patch))
	k := "apiVersion: kustomize.config.k8s.io/v1beta1\nkind: Kustomization\nresources:\n  - target.yaml\npatches:\n  - path: patch.yaml\n"
	if schema != "" {
		_ = fs.WriteFile("/app/schema.json", []byte(schema))
		k += "openapi:\n  path: schema.json\n"
	}
	_ = fs.WriteFile("/app/kustomization.yaml", []byte(k))
	var out interface{}
	cls, msg := protect(func() error {
		m, err := krusty.MakeKustomizer(krusty.MakeDefaultOptions()).Run(fs, "/app")
		if err != nil {
			return err
		}
		if len(m.Resources()) != 1 {
			return fmt.Errorf("%d resources", len(m.Resources()))
		}
		out, err = toJSONValue(&m.Resources()[0].RNode)
		return err
	})
	if schema != "" {
		openapi.ResetOpenAPI() // the custom schema must not leak into the other oracles
	}
	if cls != ClsOk {
		return nil, cls, fmt.Errorf("%s", msg)
	}
	return out, ClsOk, nil
}

func lawsAnchors04(c case04) ([]law04, string) {
	// the generator's own promise: the anchored patch, de-anchored, IS the written-out patch
	pa, err1 := resFactory04.FromBytes([]byte(c.Patch))
	pp, err2 := resFactory04.FromBytes([]byte(c.PatchPlain))
	if err1 != nil || err2 != nil {
		return nil, "patch-not-loadable"
	}
	ja, _ := toJSONValue(&pa.RNode)
	jp, _ := toJSONValue(&pp.RNode)
	if !reflect.DeepEqual(ja, jp) {
		return nil, "generator:anchored-differs-from-plain"
	}
	var out []law04
	ra, clsa, _ := resourcePatched(c.Target, c.Patch)
	rp, clsp, _ := resourcePatched(c.Target, c.PatchPlain)
	if clsa != clsp || !reflect.DeepEqual(ra, rp) {
		out = append(out, law04{"anchors", "C04/anchors/aliased-patch-differs-from-written-out",
			fmt.Sprintf("Resource.ApplySmPatch: with aliases (%s): %s; written out (%s): %s", clsa, jsonText(ra), clsp, jsonText(rp))})
	}
	ka, kclsa, _ := krustyPatched(c.Target, c.Patch, "")
	kp, kclsp, _ := krustyPatched(c.Target, c.PatchPlain, "")
	if kclsa != kclsp || !reflect.DeepEqual(ka, kp) {
		out = append(out, law04{"anchors", "C04/anchors/aliased-patch-differs-from-written-out",
			fmt.Sprintf("krusty build: with aliases (%s): %s; written out (%s): %s", kclsa, jsonText(ka), kclsp, jsonText(kp))})
	}
	return out, clsp
}

// ---------- family "schema" ----------

type schemaVariant struct {
	name      string
	def       string // the built-in definition that is re-declared
	copyDef   string // its textual copy under a name the built-in schema does not have
	field     string // the list whose strategy / key is changed
	strategy  string // declared strategy ("" = none: atomic)
	key       string
	path      []string // where the list sits in a Pod ("*" = elements)
	container bool
}

var schemaVariants = []schemaVariant{
	{name: "tolerations-keyed", def: "io.k8s.api.core.v1.PodSpec", copyDef: "com.example.v1.PodSpecCopy",
		field: "tolerations", strategy: "merge", key: "key", path: []string{"spec", "tolerations"}},
	{name: "containers-atomic", def: "io.k8s.api.core.v1.PodSpec", copyDef: "com.example.v1.PodSpecCopy",
		field: "containers", strategy: "", key: "", path: []string{"spec", "containers"}},
	{name: "containers-by-image", def: "io.k8s.api.core.v1.PodSpec", copyDef: "com.example.v1.PodSpecCopy",
		field: "containers", strategy: "merge", key: "image", path: []string{"spec", "containers"}},
	{name: "envFrom-keyed", def: "io.k8s.api.core.v1.Container", copyDef: "com.example.v1.ContainerCopy",
		field: "envFrom", strategy: "merge", key: "prefix", path: []string{"spec", "containers", "*", "envFrom"}, container: true},
	{name: "env-atomic", def: "io.k8s.api.core.v1.Container", copyDef: "com.example.v1.ContainerCopy",
		field: "env", strategy: "", key: "", path: []string{"spec", "containers", "*", "env"}, container: true},
}

func listProp(items string, strategy, key string) string {
	s := fmt.Sprintf(`{"type": "array", "items": %s`, items)
	if strategy != "" {
		s += fmt.Sprintf(`, "x-kubernetes-patch-strategy": %q, "x-kubernetes-patch-merge-key": %q`, strategy, key)
	}
	return s + "}"
}

func schObj(s string) string { return `{"type": "object", "properties": {` + s + `}}` }

// schemaText: the custom schema of a variant. The Pod side goes through the re-declared built-in definition, the
// MyPod side through copies under new names.
func schemaText(v schemaVariant) string {
	anyObj := `{"type": "object"}`
	str := `{"type": "string"}`
	containerProps := func() string {
		env, envFrom := listProp(anyObj, "merge", "name"), listProp(anyObj, "", "")
		if v.container {
			if v.field == "env" {
				env = listProp(anyObj, v.strategy, v.key)
			} else {
				envFrom = listProp(anyObj, v.strategy, v.key)
			}
		}
		return fmt.Sprintf(`"name": %s, "image": %s, "env": %s, "envFrom": %s`, str, str, env, envFrom)
	}
	podSpecProps := func(containerRef string) string {
		containers, tolerations := listProp(containerRef, "merge", "name"), listProp(anyObj, "", "")
		if !v.container {
			if v.field == "containers" {
				containers = listProp(containerRef, v.strategy, v.key)
			} else {
				tolerations = listProp(anyObj, v.strategy, v.key)
			}
		}
		return fmt.Sprintf(`"containers": %s, "tolerations": %s, "nodeName": %s`, containers, tolerations, str)
	}
	defs := []string{}
	add := func(name, body string) { defs = append(defs, fmt.Sprintf("%q: %s", name, body)) }
	ref := func(n string) string { return fmt.Sprintf(`{"$ref": "#/definitions/%s"}`, n) }
	builtinContainer := "io.k8s.api.core.v1.Container"
	if v.container {
		// Pod: built-in PodSpec -> re-declared Container; MyPod: PodSpecCopy -> ContainerCopy
		add(builtinContainer, schObj(containerProps()))
		add("com.example.v1.ContainerCopy", schObj(containerProps()))
		add("com.example.v1.PodSpecCopy", schObj(podSpecProps(ref("com.example.v1.ContainerCopy"))))
		// the Pod side must see the same PodSpec fields as the copy: re-declare it as well (identical text)
		add("io.k8s.api.core.v1.PodSpec", schObj(podSpecProps(ref(builtinContainer))))
	} else {
		add("io.k8s.api.core.v1.PodSpec", schObj(podSpecProps(ref(builtinContainer))))
		add("com.example.v1.PodSpecCopy", schObj(podSpecProps(ref(builtinContainer))))
	}
	add("com.example.v1.MyPod", `{"type": "object", "properties": {"apiVersion": `+str+`, "kind": `+str+`, "metadata": `+anyObj+
		`, "spec": `+ref("com.example.v1.PodSpecCopy")+`}, "x-kubernetes-group-version-kind": [{"group": "example.com", "kind": "MyPod", "version": "v1"}]}`)
	return `{"definitions": {` + strings.Join(defs, ", ") + `}}`
}

func genSchema04(rng *Rng) case04 {
	v := schemaVariants[rng.Intn(len(schemaVariants))]
	mk := func(n string) *g4 {
		c := gM("name", n, "image", n+":1")
		if rng.Chance(70) || v.field == "env" {
			c.set("env", gL(gM("name", "X", "value", "x"), gM("name", "Y", "value", "y")))
		}
		if rng.Chance(60) || v.field == "envFrom" {
			c.set("envFrom", gL(gM("prefix", "P1_", "configMapRef", gM("name", "cm1")), gM("prefix", "P2_", "configMapRef", gM("name", "cm2"))))
		}
		return c
	}
	spec := gM("containers", gL(mk("a"), mk("b")),
		"tolerations", gL(gM("key", "k1", "operator", "Exists"), gM("key", "k2", "operator", "Equal", "value", "v")))
	// the patch touches the list of the variant
	var pl *g4
	switch v.field {
	case "tolerations":
		pl = gL(gM("key", "k3", "operator", "Exists"))
		switch rng.Intn(3) {
		case 0:
			pl = gL(gM("key", "k1", "effect", "NoSchedule"))
		case 1:
			pl = gL(gM("key", "k2", "$patch", "delete"), gM("key", "k3", "operator", "Exists"))
		}
	case "containers":
		pl = gL(gM("name", "a", "image", "a:1", "env", gL(gM("name", "Z", "value", "z"))))
		switch rng.Intn(3) {
		case 0:
			pl = gL(gM("name", "c", "image", "c:1"))
		case 1:
			pl = gL(gM("name", "b", "image", "b:1", "$patch", "delete"))
		}
	case "envFrom":
		pl = gL(gM("prefix", "P3_", "configMapRef", gM("name", "cm3")))
		switch rng.Intn(3) {
		case 0:
			pl = gL(gM("prefix", "P1_", "secretRef", gM("name", "s1")))
		case 1:
			pl = gL(gM("prefix", "P2_", "$patch", "delete"))
		}
	case "env":
		pl = gL(gM("name", "Z", "value", "z"))
		if rng.Chance(50) {
			pl = gL(gM("name", "X", "value", "changed"))
		}
	}
	var pspec *g4
	if v.container {
		pspec = gM("containers", gL(gM("name", rng.Pick([]string{"a", "b"}), v.field, pl)))
	} else {
		pspec = gM(v.field, pl)
	}
	doc := func(av, kind string, spec *g4) string {
		return gM("apiVersion", av, "kind", kind, "metadata", gM("name", "obj"), "spec", spec).yaml()
	}
	return case04{Family: "schema", Schema: schemaText(v), Variant: v.name,
		Target: doc("v1", "Pod", spec), Patch: doc("v1", "Pod", pspec),
		Twin: doc("example.com/v1", "MyPod", spec), PatchPlain: doc("example.com/v1", "MyPod", pspec),
		Prepend: true, Note: "variant=" + v.name}
}

func variantByName(n string) *schemaVariant {
	for i := range schemaVariants {
		if schemaVariants[i].name == n {
			return &schemaVariants[i]
		}
	}
	return nil
}

// stripIdentity: the result without apiVersion / kind (the two sides differ in nothing else)
func stripIdentity(j interface{}) interface{} {
	m, ok := j.(map[string]interface{})
	if !ok {
		return j
	}
	out := map[string]interface{}{}
	for k, v := range m {
		if k != "apiVersion" && k != "kind" {
			out[k] = v
		}
	}
	return out
}

func lawsSchema04(c case04) ([]law04, string) {
	var out []law04
	v := variantByName(c.Variant)
	if v == nil {
		return nil, "unknown-variant"
	}
	// (1) lookup: the schema in use reports what its text declares
	cls, msg := protect(func() error {
		if err := openapi.SetSchema(map[string]string{"path": "schema.json"}, []byte(c.Schema), true); err != nil {
			return err
		}
		defer openapi.ResetOpenAPI()
		rs := openapi.SchemaForResourceType(kyaml.TypeMeta{Kind: "Pod", APIVersion: "v1"})
		for _, f := range v.path {
			if rs == nil {
				break
			}
			if f == "*" {
				rs = rs.Elements()
			} else {
				rs = rs.Field(f)
			}
		}
		if rs == nil {
			return fmt.Errorf("no schema at %v", v.path)
		}
		st, ks := rs.PatchStrategyAndKeyList()
		want := []string{}
		if v.key != "" {
			want = []string{v.key}
		}
		if st != v.strategy || !(len(ks) == 0 && len(want) == 0 || reflect.DeepEqual(ks, want)) {
			out = append(out, law04{"schema", "C04/schema/redeclared-definition-not-in-use",
				fmt.Sprintf("custom schema re-declares %s with %s: strategy %q key %q; the openapi package reports strategy %q keys %v",
					v.def, v.field, v.strategy, v.key, st, ks)})
		}
		return nil
	})
	if cls != ClsOk {
		openapi.ResetOpenAPI()
		return []law04{{"schema", "C04/schema/lookup-" + cls, msg}}, cls
	}
	// (2) build: built-in kind through the re-declared definition == custom kind through the copies
	rb, clsb, _ := krustyPatched(c.Target, c.Patch, c.Schema)
	rc, clsc, _ := krustyPatched(c.Twin, c.PatchPlain, c.Schema)
	if clsb != clsc || !reflect.DeepEqual(stripIdentity(rb), stripIdentity(rc)) {
		out = append(out, law04{"schema", "C04/schema/redeclared-definition-not-in-use",
			fmt.Sprintf("krusty build with the custom schema: Pod (%s): %s; MyPod with copied definitions (%s): %s",
				clsb, jsonText(rb), clsc, jsonText(rc))})
	}
	return out, clsc
}

// ---------- running ----------

func lawsFam04(c case04) ([]law04, string) {
	switch c.Family {
	case "anchors":
		return lawsAnchors04(c)
	case "schema":
		return lawsSchema04(c)
	}
	return nil, "unknown-family"
}

func runFam04(r *Run, c case04) {
	r.Count("family", c.Family)
	key, _ := json.Marshal(c)
	vs, outcome := lawsFam04(c)
	r.Count("family_outcome", c.Family+":"+outcome)
	r.Count("family_shape", c.Family+":"+c.Note)
	nontrivial := true
	r.AddEval(string(key), nontrivial)
	for _, v := range vs {
		r.Count("law_failures", v.Class)
		r.Violation(OracleViolation{Law: v.Law, Class: v.Class, Detail: v.Detail, Replay: c})
	}
}
