module verifharness

go 1.22.7

require (
	sigs.k8s.io/kustomize/api v0.19.0
	sigs.k8s.io/kustomize/cmd/config v0.19.0
	sigs.k8s.io/kustomize/kustomize/v5 v5.0.0
	sigs.k8s.io/kustomize/kyaml v0.19.0
	sigs.k8s.io/yaml v1.4.0
)

require (
	github.com/blang/semver/v4 v4.0.0 // indirect
	github.com/carapace-sh/carapace-shlex v1.0.1 // indirect
	github.com/davecgh/go-spew v1.1.1 // indirect
	github.com/go-errors/errors v1.4.2 // indirect
	github.com/go-openapi/jsonpointer v0.21.0 // indirect
	github.com/go-openapi/jsonreference v0.20.2 // indirect
	github.com/go-openapi/swag v0.23.0 // indirect
	github.com/google/gnostic-models v0.6.9 // indirect
	github.com/josharian/intern v1.0.0 // indirect
	github.com/mailru/easyjson v0.7.7 // indirect
	github.com/monochromegane/go-gitignore v0.0.0-20200626010858-205db1a8cc00 // indirect
	github.com/pkg/errors v0.9.1 // indirect
	github.com/spf13/cobra v1.8.0 // indirect
	github.com/spf13/pflag v1.0.6 // indirect
	github.com/xlab/treeprint v1.2.0 // indirect
	golang.org/x/text v0.21.0 // indirect
	google.golang.org/protobuf v1.36.1 // indirect
	gopkg.in/evanphx/json-patch.v4 v4.12.0 // indirect
	gopkg.in/yaml.v3 v3.0.1 // indirect
	k8s.io/kube-openapi v0.0.0-20241212222426-2c72e554b1e7 // indirect
)

replace sigs.k8s.io/kustomize/api => /repo/api

replace sigs.k8s.io/kustomize/kyaml => /repo/kyaml

replace sigs.k8s.io/kustomize/kustomize/v5 => /repo/kustomize

replace sigs.k8s.io/kustomize/cmd/config => /repo/cmd/config
