module verifharness

go 1.22.7

require (
	github.com/google/gnostic-models v0.6.9
	google.golang.org/protobuf v1.36.1
	k8s.io/kube-openapi v0.0.0-20241212222426-2c72e554b1e7
	sigs.k8s.io/kustomize/api v0.19.0
	sigs.k8s.io/kustomize/cmd/config v0.19.0
	sigs.k8s.io/kustomize/kustomize/v5 v5.0.0
	sigs.k8s.io/kustomize/kyaml v0.19.0
	sigs.k8s.io/yaml v1.4.0
)

require (
	github.com/blang/semver/v4 v4.0.0 // indirect
	github.com/carapace-sh/carapace-shlex v1.0.1 // indirect
	github.com/davecgh/go-spew v1.1.1 // indirect
	github.com/go-errors/errors v1.4.2 // indirect
	github.com/go-logr/logr v1.4.2 // indirect
	github.com/go-openapi/jsonpointer v0.21.0 // indirect
	github.com/go-openapi/jsonreference v0.20.2 // indirect
	github.com/go-openapi/swag v0.23.0 // indirect
	github.com/gogo/protobuf v1.3.2 // indirect
	github.com/google/gofuzz v1.2.0 // indirect
	github.com/josharian/intern v1.0.0 // indirect
	github.com/json-iterator/go v1.1.12 // indirect
	github.com/mailru/easyjson v0.7.7 // indirect
	github.com/modern-go/concurrent v0.0.0-20180306012644-bacd9c7ef1dd // indirect
	github.com/modern-go/reflect2 v1.0.2 // indirect
	github.com/monochromegane/go-gitignore v0.0.0-20200626010858-205db1a8cc00 // indirect
	github.com/pkg/errors v0.9.1 // indirect
	github.com/spf13/cobra v1.8.0 // indirect
	github.com/spf13/pflag v1.0.6 // indirect
	github.com/xlab/treeprint v1.2.0 // indirect
	golang.org/x/text v0.21.0 // indirect
	gopkg.in/evanphx/json-patch.v4 v4.12.0 // indirect
	gopkg.in/inf.v0 v0.9.1 // indirect
	gopkg.in/yaml.v3 v3.0.1 // indirect
	k8s.io/utils v0.0.0-20240711033017-18e509b52bc8 // indirect
	sigs.k8s.io/json v0.0.0-20221116044647-bc3834ca7abd // indirect
	sigs.k8s.io/structured-merge-diff/v4 v4.4.2 // indirect
)

// C04 reference oracle (k8s.io/apimachinery strategicpatch); versions present in the offline module cache
require (
	golang.org/x/net v0.34.0
	k8s.io/apimachinery v0.29.0
	k8s.io/klog/v2 v2.130.1
)

replace sigs.k8s.io/kustomize/api => /repo/api

replace sigs.k8s.io/kustomize/kyaml => /repo/kyaml

replace sigs.k8s.io/kustomize/kustomize/v5 => /repo/kustomize

replace sigs.k8s.io/kustomize/cmd/config => /repo/cmd/config
