"""Shared machinery of ./check (see DESIGN.md section 2.1)."""
import sys, os, json, subprocess, time, re, hashlib, fcntl, glob, shutil

ROOT = os.path.dirname(os.path.dirname(os.path.abspath(__file__)))
COQ = os.path.join(ROOT, "coq")
TH = os.path.join(COQ, "theories")
BUILD = os.path.join(ROOT, ".build")
# /repo is what registered commands check; VERIF_REPO lets the coordinator point a scratch copy of the
# framework at a scratch worktree of kustomize (seeded-defect experiments) without touching /repo.
REPO = os.environ.get("VERIF_REPO", "/repo")
NCPU = os.cpu_count() or 4

GOENV = dict(os.environ, VERIF_ROOT=ROOT, GOFLAGS="-mod=mod", GOPROXY="off", GOSUMDB="off",
             GOTOOLCHAIN="local", GOWORK="off", CGO_ENABLED=os.environ.get("CGO_ENABLED", "0"))

# Axioms of the standard library that may appear under a theorem (each is reported in the evidence).
ALLOWED_AXIOMS = {
    "functional_extensionality_dep", "FunctionalExtensionality.functional_extensionality_dep",
    "proof_irrelevance", "ProofIrrelevance.proof_irrelevance", "classic", "Classical_Prop.classic",
    "Eqdep.Eq_rect_eq.eq_rect_eq", "JMeq.JMeq_eq", "JMeq_eq",
    "propositional_extensionality", "PropExtensionality.propositional_extensionality",
}

GATE_RE = re.compile(r"\b(Admitted|admit|Axiom|Axioms|Parameter|Parameters|Conjecture|Conjectures|Admit Obligations|"
                     r"Unset Guard Checking|Unset Positivity Checking|Unset Universe Checking|bypass_check|"
                     r"type-in-type|impredicative-set|native_compute)\b")

SECT_RE = re.compile(r"(?m)^\s*(Section|End|Variables?|Hypothes[ie]s|Context)\b\s*(\w*)")

# ---------------------------------------------------------------- property table
# props: Coq file under theories/Props; harness: run the Go harness + correspondence;
# gen: generated files whose obligations belong to the property (informational)
PROPS = {}

def load_props():
    for p in sorted(glob.glob(os.path.join(ROOT, "lib", "props.d", "*.json"))):
        with open(p) as f:
            PROPS[os.path.basename(p)[:-5]] = json.load(f)

# ---------------------------------------------------------------- helpers
def sh(cmd, cwd=None, env=None, timeout=None, input=None):
    t0 = time.time()
    try:
        p = subprocess.run(cmd, cwd=cwd, env=env, timeout=timeout, input=input,
                           stdout=subprocess.PIPE, stderr=subprocess.STDOUT, text=True, errors="replace")
        return p.returncode, p.stdout, time.time() - t0
    except subprocess.TimeoutExpired as e:
        out = e.stdout if isinstance(e.stdout, str) else (e.stdout or b"").decode(errors="replace")
        return 124, out + "\n[timeout]", time.time() - t0

class Lock:
    def __init__(self, name):
        os.makedirs(BUILD, exist_ok=True)
        self.path = os.path.join(BUILD, name)
    def __enter__(self):
        self.f = open(self.path, "w")
        fcntl.flock(self.f, fcntl.LOCK_EX)
        return self
    def __exit__(self, *a):
        fcntl.flock(self.f, fcntl.LOCK_UN)
        self.f.close()

def write_if_changed(path, content):
    try:
        with open(path) as f:
            if f.read() == content:
                return False
    except FileNotFoundError:
        pass
    os.makedirs(os.path.dirname(path), exist_ok=True)
    with open(path, "w") as f:
        f.write(content)
    return True

# ---------------------------------------------------------------- translators
def run_translators():
    """Rebuild and run the Go translators: /repo sources -> coq/theories/Gen/*.v"""
    tdir = os.path.join(ROOT, "translate")
    if not os.path.exists(os.path.join(tdir, "main.go")):
        return True, "no translators"
    binp = os.path.join(BUILD, "translate")
    rc, out, _ = sh(["go", "build", "-o", binp, "."], cwd=tdir, env=GOENV, timeout=600)
    if rc != 0:
        return False, "translator build failed:\n" + out[-3000:]
    tmp = os.path.join(BUILD, "gen_tmp")
    shutil.rmtree(tmp, ignore_errors=True)
    os.makedirs(tmp)
    rc, out, _ = sh([binp, "-repo", REPO, "-out", tmp], cwd=tdir, env=GOENV, timeout=600)
    if rc != 0:
        return False, "translator run failed:\n" + out[-3000:]
    gen = os.path.join(TH, "Gen")
    os.makedirs(gen, exist_ok=True)
    for f in sorted(os.listdir(tmp)):
        with open(os.path.join(tmp, f)) as fh:
            write_if_changed(os.path.join(gen, f), fh.read())
    return True, out[-2000:]

# ---------------------------------------------------------------- Coq
def coq_sources():
    out = []
    for d, _, fs in os.walk(TH):
        for f in fs:
            if f.endswith(".v"):
                out.append(os.path.join(d, f))
    return sorted(out)

def grep_gate():
    bad = []
    for v in coq_sources():
        with open(v, errors="replace") as f:
            txt = f.read()
        # strip comments (non-nested approximation is enough: nested comments are rare here)
        txt2 = re.sub(r"\(\*.*?\*\)", " ", txt, flags=re.S)
        for m in GATE_RE.finditer(txt2):
            bad.append("%s: %s" % (os.path.relpath(v, ROOT), m.group(0)))
        # a Variable / Hypothesis / Context outside every Section declares an axiom
        depth = 0
        opened = []
        for m in SECT_RE.finditer(txt2):
            kw, name = m.group(1), m.group(2)
            if kw == "Section":
                opened.append(name)
            elif kw == "End":
                if opened and opened[-1] == name:
                    opened.pop()
            elif not opened:
                bad.append("%s: top-level %s" % (os.path.relpath(v, ROOT), kw))
    proj = open(os.path.join(COQ, "_CoqProject")).read()
    for w in ("type-in-type", "impredicative-set", "-vos", "-vok", "bypass"):
        if w in proj:
            bad.append("_CoqProject: " + w)
    return bad

def coq_project_files():
    files = []
    for line in open(os.path.join(COQ, "_CoqProject")):
        line = line.strip()
        if line.endswith(".v"):
            files.append(line)
    return files

PROJECT_HEADER = """-Q theories KV
-arg -w -arg -notation-overridden,-ambiguous-paths,-deprecated-hint-without-locality,-deprecated-instance-without-locality
"""

def gen_coq_project():
    """_CoqProject = every .v under theories/ except Props/* (compiled by ./check itself). Order is irrelevant (coqdep)."""
    files = [os.path.relpath(v, COQ) for v in coq_sources() if "/Props/" not in v]
    write_if_changed(os.path.join(COQ, "_CoqProject"), PROJECT_HEADER + "\n".join(files) + "\n")

def coq_build(timeout=2400):
    """Full .vo build of everything in _CoqProject (make -k). Stale .vo of edited sources are removed first."""
    gen_coq_project()
    for v in coq_sources():
        vo = v[:-2] + ".vo"
        if os.path.exists(vo) and os.path.getmtime(v) > os.path.getmtime(vo):
            for ext in (".vo", ".vos", ".vok", ".glob"):
                try:
                    os.remove(v[:-2] + ext)
                except FileNotFoundError:
                    pass
    mk = os.path.join(COQ, "Makefile")
    proj = os.path.join(COQ, "_CoqProject")
    if not os.path.exists(mk) or os.path.getmtime(mk) < os.path.getmtime(proj):
        rc, out, _ = sh(["coq_makefile", "-f", "_CoqProject", "-o", "Makefile"], cwd=COQ, timeout=120)
        if rc != 0:
            return False, out, []
    rc, out, dt = sh(["make", "-k", "-j%d" % NCPU], cwd=COQ, timeout=timeout)
    missing = [f for f in coq_project_files() if not os.path.exists(os.path.join(COQ, f[:-2] + ".vo"))]
    return (rc == 0 and not missing), out, missing

THM_RE = re.compile(r"^\s*(?:Theorem|Lemma|Corollary)\s+([A-Za-z0-9_']+)", re.M)

def check_props(prop):
    """Compile the property's theorem files (theories/Props/<name>.v, default [<prop>]; a property whose
    whole-build part lives in the integrated pipeline model also has <prop>P.v) and merge the results."""
    names = PROPS.get(prop, {}).get("props_files", [prop])
    total = dict(ok=True, theorems=[], discharged=0, obligations=0, axioms={}, log="", missing_pa=[])
    for nm in names:
        r = check_props_file(nm)
        total["ok"] = total["ok"] and r["ok"]
        total["theorems"] += r["theorems"]
        total["obligations"] += r["obligations"]
        total["axioms"].update(r["axioms"])
        total["missing_pa"] += r["missing_pa"]
        total["log"] += r["log"][-2500:] + "\n"
    total["discharged"] = total["obligations"] if total["ok"] else 0
    return total

def check_props_file(prop):
    """Compile theories/Props/<prop>.v (property theorems only) and read the Print Assumptions output."""
    src = os.path.join(TH, "Props", prop + ".v")
    res = dict(ok=False, theorems=[], discharged=0, obligations=0, axioms={}, log="", missing_pa=[])
    if not os.path.exists(src):
        res["log"] = "no Props file"
        return res
    txt = open(src).read()
    txt_nc = re.sub(r"\(\*.*?\*\)", " ", txt, flags=re.S)
    thms = THM_RE.findall(txt_nc)
    res["theorems"] = thms
    res["obligations"] = len(thms)
    pa = set(re.findall(r"Print Assumptions\s+([A-Za-z0-9_'.]+)\s*\.", txt_nc))
    res["missing_pa"] = [t for t in thms if t not in pa]
    for ext in (".vo", ".vos", ".vok", ".glob"):
        try:
            os.remove(src[:-2] + ext)
        except FileNotFoundError:
            pass
    rc, out, dt = sh(["coqc", "-Q", "theories", "KV", os.path.relpath(src, COQ)], cwd=COQ, timeout=1200)
    res["log"] = out
    if rc != 0:
        return res
    # Print Assumptions blocks, in order
    blocks = re.split(r"(?=Closed under the global context|Axioms:)", out)
    blocks = [b for b in blocks if b.startswith("Closed under") or b.startswith("Axioms:")]
    names = re.findall(r"Print Assumptions\s+([A-Za-z0-9_'.]+)\s*\.", txt_nc)
    ok = len(blocks) == len(names) and not res["missing_pa"]
    for name, b in zip(names, blocks):
        if b.startswith("Closed under"):
            res["axioms"][name] = []
        else:
            ax = re.findall(r"^([A-Za-z0-9_'.]+)\s*:", b[len("Axioms:"):], flags=re.M)
            res["axioms"][name] = ax
            for x in ax:
                if x not in ALLOWED_AXIOMS and x.split(".")[-1] not in ALLOWED_AXIOMS:
                    ok = False
    res["ok"] = ok
    res["discharged"] = len(thms) if ok else 0
    return res

# ---------------------------------------------------------------- harness
def build_harness():
    hdir = os.path.join(ROOT, "harness")
    # go.sum of the harness = union of the repo modules' go.sum (regenerated: the tree may have changed)
    sums = set()
    for m in ("api", "kyaml", "kustomize", "cmd/config"):
        try:
            sums.update(l for l in open(os.path.join(REPO, m, "go.sum")).read().splitlines() if l.strip())
        except FileNotFoundError:
            pass
    extra = os.path.join(hdir, "go.sum.extra")
    if os.path.exists(extra):
        sums.update(l for l in open(extra).read().splitlines() if l.strip())
    write_if_changed(os.path.join(hdir, "go.sum"), "\n".join(sorted(sums)) + "\n")
    binp = os.path.join(BUILD, "harness")
    cmd = ["go", "build", "-tags", "verif", "-o", binp]
    if REPO != "/repo":
        alt = os.path.join(BUILD, "alt.go.mod")
        write_if_changed(alt, open(os.path.join(hdir, "go.mod")).read().replace("=> /repo/", "=> %s/" % REPO))
        write_if_changed(os.path.join(BUILD, "alt.go.sum"), open(os.path.join(hdir, "go.sum")).read())
        cmd += ["-modfile", alt]
    rc, out, dt = sh(cmd + ["."], cwd=hdir, env=GOENV, timeout=1200)
    if rc != 0 and ("no such file or directory" in out or "cache" in out):
        # the Go build cache was trimmed under a running build (shared machine): not a verdict, build again
        rc, out, dt = sh(cmd + ["."], cwd=hdir, env=GOENV, timeout=1200)
    return rc == 0, out

def run_harness(prop, tier, seed, outdir, timeout):
    shutil.rmtree(outdir, ignore_errors=True)
    os.makedirs(outdir)
    rc, out, dt = sh([os.path.join(BUILD, "harness"), "-tier", tier, "-seed", str(seed), "-out", outdir, prop],
                     cwd=ROOT, env=GOENV, timeout=timeout)
    meta = None
    mp = os.path.join(outdir, "meta.json")
    if rc == 0 and os.path.exists(mp):
        meta = json.load(open(mp))
    return rc, out, meta

def eval_cases(outdir, meta, timeout=1500):
    """coqc on every case shard (parallel). Returns (ok, mismatching global indices, log)."""
    files = meta.get("case_files", [])
    procs = []
    mism, logs, ok = [], [], True
    shard = None
    maxpar = NCPU
    pending = list(enumerate(files))
    running = []
    t0 = time.time()
    def launch(i, f):
        outp = open(os.path.join(outdir, f[:-2] + ".out"), "w")
        p = subprocess.Popen(["coqc", "-Q", TH, "KV", f], cwd=outdir, stdout=outp, stderr=subprocess.STDOUT)
        return (i, f, p, outp)
    results = {}
    while pending or running:
        while pending and len(running) < maxpar:
            i, f = pending.pop(0)
            running.append(launch(i, f))
        time.sleep(0.05)
        still = []
        for (i, f, p, outp) in running:
            rc = p.poll()
            if rc is None:
                if time.time() - t0 > timeout:
                    p.kill()
                    results[i] = (124, f)
                    outp.close()
                else:
                    still.append((i, f, p, outp))
            else:
                outp.close()
                results[i] = (rc, f)
        running = still
    # a shard whose coqc was killed by a signal (rc < 0: the kernel's OOM killer on a loaded machine) or that ran
    # into the shared time limit while 16 shards competed says nothing about the property: evaluate it again, alone
    for i, f in enumerate(files):
        if results[i][0] < 0 or results[i][0] == 124:
            for _attempt in range(2):
                (_, _, p, outp) = launch(i, f)
                try:
                    rc2 = p.wait(timeout=timeout)
                except subprocess.TimeoutExpired:
                    p.kill()
                    rc2 = 124
                outp.close()
                results[i] = (rc2, f)
                if rc2 >= 0 and rc2 != 124:
                    break
    sizes = []
    for f in files:
        txt = open(os.path.join(outdir, f)).read()
        sizes.append(len(re.findall(r"^  \(", txt, flags=re.M)))
    base = 0
    for i, f in enumerate(files):
        rc, _ = results[i]
        out = open(os.path.join(outdir, f[:-2] + ".out")).read()
        m = re.search(r"M\s*=\s*(\[.*?\])\s*:\s*list N", out, flags=re.S)
        if rc != 0 or not m:
            ok = False
            logs.append("%s: rc=%s\n%s" % (f, rc, out[-1500:]))
        else:
            for x in re.findall(r"(\d+)%N", m.group(1)):
                mism.append(base + int(x))
        base += sizes[i]
    return ok, mism, "\n".join(logs)

# ---------------------------------------------------------------- known findings
def known_findings(prop):
    out = []
    paths = [os.path.join(ROOT, "known-findings.txt")] + sorted(glob.glob(os.path.join(ROOT, "findings.d", "*.txt")))
    for p in paths:
        if not os.path.exists(p):
            continue
        for line in open(p):
            line = line.strip()
            if not line.startswith("finding:"):
                continue
            m = re.match(r"finding:\s+property=(\S+)\s+class=(\S+)\s*(.*)", line)
            if m and m.group(1) == prop:
                out.append(dict(cls=m.group(2), text=m.group(3)))
    return out

# ---------------------------------------------------------------- evidence + verdict
def write_replay(prop, kind, payload):
    d = os.path.join(BUILD, "replays")
    os.makedirs(d, exist_ok=True)
    body = json.dumps(dict(property=prop, kind=kind, **payload), indent=1, sort_keys=True)
    h = hashlib.sha256(body.encode()).hexdigest()[:12]
    p = os.path.join(d, "%s-%s-%s.json" % (prop, kind, h))
    with open(p, "w") as f:
        f.write(body)
    return p

def trusted_base(prop, pr):
    tb = [
        "Coq 8.16.1 kernel (coqc; coqchk in the thorough tier); vm_compute used for finite table obligations and case evaluation; native_compute not used",
        "axioms per theorem as printed by Print Assumptions: " +
        ("; ".join("%s: %s" % (k, ",".join(v) if v else "closed") for k, v in sorted(pr["axioms"].items())) or "n/a"),
        "hand-written Gallina model of the Go code, tied by the correspondence check (Go harness generators, Coq term printer, canonicalisation and diff are trusted)",
        "translators /verif/translate (Go source -> Coq tables) where the property uses generated tables",
        "no extraction: the model is evaluated inside Coq (vm_compute) on the harness' cases",
    ]
    tb += PROPS.get(prop, {}).get("trusted", [])
    return tb

def run_check(prop, tier, seed):
    load_props()
    t0 = time.time()
    if prop not in PROPS:
        print("unknown property", prop)
        return 2
    cfg = PROPS[prop]
    os.makedirs(BUILD, exist_ok=True)
    os.makedirs(os.path.join(ROOT, "evidence"), exist_ok=True)
    problems = []     # (kind, name, detail) : proof/correspondence obligations that no longer check
    notes = []
    with Lock("build.lock"):
        ok, tlog = run_translators()
        if not ok:
            problems.append(("translator", "translate", tlog))
        gate = grep_gate()
        if gate:
            problems.append(("gate", "grep-gate", "; ".join(gate[:10])))
        okb, blog, missing = coq_build()
        if not okb:
            notes.append("coq build incomplete; missing: " + ", ".join(missing[:8]))
        pr = check_props(prop)
        if not pr["ok"]:
            detail = pr["log"][-2500:]
            if missing:
                detail = "missing .vo: %s\n" % ", ".join(missing[:8]) + errors_for(blog, missing) + "\n" + detail
            problems.append(("proof", "Props/%s.v" % prop, detail))
        hok, hlog = (True, "")
        if cfg.get("harness", True):
            hok, hlog = build_harness()
            if not hok:
                problems.append(("harness-build", "harness", hlog[-3000:]))
    meta, mism, violations = None, [], []
    _known0 = {k["cls"] for k in known_findings(prop)}
    outdir = os.path.join(BUILD, "run", prop)
    if cfg.get("harness", True) and hok:
        budget = cfg.get("timeout_quick", 600) if tier == "quick" else cfg.get("timeout_thorough", 5400)
        rc, hout, meta = run_harness(prop, tier, seed, outdir, budget)
        if meta is None:
            problems.append(("harness-run", "harness %s" % prop, "rc=%s\n%s" % (rc, hout[-3000:])))
        else:
            violations = meta.get("violations", [])
            if meta.get("case_files"):
                cok, mism, clog = eval_cases(outdir, meta)
                if not cok:
                    problems.append(("correspondence", "Corr/%s (case evaluation failed)" % prop, clog[-2500:]))
                if mism:
                    descs = meta.get("case_descs", [])
                    first = [dict(index=i, case=descs[i] if i < len(descs) else None) for i in mism[:5]]
                    problems.append(("correspondence", "Corr/%s: model and implementation disagree on %d of %d cases"
                                     % (prop, len(mism), meta.get("model_cases", 0)), json.dumps(first)[:3000], first))
    # ---- the disagreeing cases themselves are the first candidates for a failing input: replay each on the
    #      implementation with the property's own oracles (law checks, panic/hang detection)
    _known0 = {k["cls"] for k in known_findings(prop)}
    if mism and meta is not None and hok and not [v for v in violations if v.get("class") not in _known0]:
        descs = meta.get("case_descs", [])
        for i in mism[:12]:
            if i >= len(descs):
                continue
            rp = write_replay(prop, "case", dict(case=descs[i], note="case on which model and implementation disagree"))
            rc, out, _ = sh([os.path.join(BUILD, "harness"), "-replay", rp, prop], cwd=ROOT, env=GOENV, timeout=300)
            if rc == 1:
                violations.append(dict(law="replayed-disagreement", **{"class": "%s/replayed-disagreement" % prop},
                                       detail=out[-600:], replay=descs[i]))
                break
    # ---- search when an obligation broke and no oracle violation is at hand
    if problems and not [v for v in violations if v.get("class") not in _known0] and cfg.get("harness", True) and hok and tier == "quick":
        rc, hout, meta2 = run_harness(prop, "thorough", seed + 7919, outdir + "-search", cfg.get("timeout_search", 900))
        if meta2 is not None:
            violations = violations + meta2.get("violations", [])
            notes.append("search run: %d evaluations, %d oracle violations" % (meta2.get("evaluations", 0), len(violations)))
    # ---- verdict
    known = known_findings(prop)
    known_cls = {k["cls"]: k for k in known}
    new_v, known_hit = [], {}
    for v in violations:
        if v.get("class") in known_cls:
            known_hit.setdefault(v["class"], v)
        else:
            new_v.append(v)
    exit_code = 0
    lines = []
    for cls, v in sorted(known_hit.items()):
        lines.append("KNOWN-FINDING: property=%s class=%s %s" % (prop, cls, known_cls[cls]["text"]))
    nviol = 0
    seen_cls = set()
    for v in new_v:
        if v.get("class") in seen_cls:
            continue
        seen_cls.add(v.get("class"))
        p = write_replay(prop, "oracle", dict(law=v.get("law"), cls=v.get("class"), detail=v.get("detail"), case=v.get("replay")))
        lines.append("VIOLATION property=%s replay=%s" % (prop, p))
        nviol += 1
        exit_code = 1
    if problems and not new_v:
        # an obligation no longer checks and no failing input was found
        payload = dict(broken=[dict(kind=p[0], name=p[1], detail=p[2]) for p in problems],
                       note="the named theorem / correspondence no longer checks; the search found no input on which the property itself fails")
        for p in problems:
            if len(p) > 3:
                payload["disagreeing_cases"] = p[3]
        rp = write_replay(prop, "obligation", payload)
        lines.append("VIOLATION property=%s replay=%s no-failing-input-found" % (prop, rp))
        nviol += 1
        exit_code = 1
    elif problems:
        notes.append("also broken: " + "; ".join("%s %s" % (p[0], p[1]) for p in problems))
    for p in problems:
        print("BROKEN %s: %s\n%s" % (p[0], p[1], p[2][:1500]))
    # ---- evidence
    cov = dict(
        obligations=pr["obligations"], discharged=pr["discharged"],
        checker_cmd="make -C /verif/coq -k -j%d && coqc -Q theories KV theories/Props/{%s}.v (Print Assumptions under every theorem)" % (NCPU, ",".join(PROPS.get(prop, {}).get("props_files", [prop]))),
        trusted_base=trusted_base(prop, pr),
        theorems=pr["theorems"],
        refuted=[t for t in pr["theorems"] if t.endswith("_refuted") or "_refuted_" in t],
        partial=[t for t in pr["theorems"] if t.endswith("_partial") or "_partial_" in t],
        evaluations=(meta or {}).get("evaluations", 0),
        distinct_nontrivial=(meta or {}).get("distinct_nontrivial", 0),
        rule=(meta or {}).get("rule", "proof obligations only"),
        samples=(meta or {}).get("samples", []) or [dict(theorems=pr["theorems"][:5])],
        traces_validated_against_impl=((meta or {}).get("model_cases", 0) - len(mism)) if meta else 0,
        model_cases=(meta or {}).get("model_cases", 0),
        disagreements_checked=len(mism),
        skipped_outside_model_domain=(meta or {}).get("skipped", 0),
        input_distribution=(meta or {}).get("distribution", {}),
        exhaustive=bool((meta or {}).get("exhaustive", False)),
        known_findings_seen=sorted(known_hit.keys()),
        notes=notes + ((meta or {}).get("notes") or []),
    )
    if tier == "thorough":
        cov["coqchk"] = coqchk(prop)
        if cov["coqchk"].get("rc") not in (0, None):
            lines.append("VIOLATION property=%s replay=%s no-failing-input-found" % (
                prop, write_replay(prop, "obligation", dict(broken=[dict(kind="coqchk", name="Props/%s" % prop, detail=cov["coqchk"].get("tail", ""))]))))
            exit_code = 1
            nviol += 1
    ev = dict(property_id=prop, tier=tier, seed=seed, level="proof", coverage=cov,
              assumptions=cfg.get("assumptions", []), wall_s=round(time.time() - t0, 2), violations=nviol)
    with open(os.path.join(ROOT, "evidence", prop + ".json"), "w") as f:
        json.dump(ev, f, indent=1, sort_keys=True)
    for l in lines:
        print(l)
    print("%s tier=%s obligations=%d discharged=%d model_cases=%d mismatches=%d oracle_violations=%d known=%d wall=%.1fs"
          % (prop, tier, pr["obligations"], pr["discharged"], cov["model_cases"], len(mism), len(new_v), len(known_hit), time.time() - t0))
    return exit_code

def errors_for(blog, missing):
    out = []
    for m in re.finditer(r"File \"([^\"]+)\", line[^\n]*\n(?:[^\n]*\n){0,12}", blog):
        out.append(m.group(0))
    return "\n".join(out)[-2500:]

def coqchk(prop):
    """Independent re-check of the compiled property file and everything it depends on (thorough tier).
    One run per tree state is shared by all properties through a stamp keyed by the .vo digests."""
    with Lock("coqchk.lock"):
        vo = os.path.join(TH, "Props", prop + ".vo")
        if not os.path.exists(vo):
            return dict(rc=1, tail="no .vo")
        h = hashlib.sha256()
        for v in sorted(glob.glob(os.path.join(TH, "**", "*.vo"), recursive=True)):
            if "/Props/" in v and not v.endswith("/" + prop + ".vo"):
                continue
            h.update(open(v, "rb").read())
        stamp = os.path.join(BUILD, "coqchk-%s-%s.json" % (prop, h.hexdigest()[:16]))
        if os.path.exists(stamp):
            return json.load(open(stamp))
        mods = ["KV.Props." + nm for nm in PROPS.get(prop, {}).get("props_files", [prop])]
        rc, out, dt = sh(["coqchk", "-silent", "-o", "-Q", "theories", "KV"] + mods, cwd=COQ, timeout=3600)
        res = dict(rc=rc, wall_s=round(dt, 1), tail=out[-3000:])
        with open(stamp, "w") as f:
            json.dump(res, f)
        return res

def do_replay(prop, path):
    load_props()
    with Lock("build.lock"):
        ok, log = build_harness()
    if not ok:
        print(log[-2000:])
        return 2
    data = json.load(open(path))
    if data.get("kind") == "obligation":
        print(json.dumps(data, indent=1)[:4000])
        print("replay of a broken obligation: re-running the quick check")
        return run_check(prop, "quick", 1)
    rc, out, _ = sh([os.path.join(BUILD, "harness"), "-replay", path, prop], cwd=ROOT, env=GOENV, timeout=600)
    print(out)
    return 1 if rc == 1 else (0 if rc == 0 else 2)
